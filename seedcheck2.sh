#!/bin/bash
# dev helper: seedcheck2.sh <seeded-dir> <property> [seconds] [seed]
# like seedcheck.sh but leaves /repo and /verif untouched: scratch worktree of /repo + scratch copy of /verif
d=$(readlink -f $1); prop=$2; secs=${3:-30}; seed=${4:-1}
id=$(basename $d)-$prop-$$
wt=/var/tmp/wt-$id; vd=/var/tmp/vd-$id
git -C /repo worktree add -q --detach $wt HEAD || exit 2
git -C $wt apply "$d/patch.diff" || { echo "PATCH DOES NOT APPLY: $d"; git -C /repo worktree remove --force $wt; exit 2; }
mkdir -p $vd && rsync -a --exclude .git --exclude replays --exclude evidence /verif/ $vd/ && mkdir -p $vd/replays $vd/evidence
out=$(cd $vd && VERIF_REPO=$wt VERIF_DIR=$vd ./bin/vcheck $prop --tier quick --seconds $secs --seed $seed 2>&1 | grep -v "^KNOWN")
echo "=== $(basename $d) -> $prop: $(echo "$out" | tail -1 | cut -c1-300)"
echo "$out" | grep -E "VIOLATION|rule=" | head -${SHOW:-6} | cut -c1-400
if [ -n "$KEEP" ]; then mkdir -p /var/tmp/keep-$id && cp -r $vd/replays /var/tmp/keep-$id/; fi
git -C /repo worktree remove --force $wt; rm -rf $vd
