#!/usr/bin/env python3
# validates MANIFEST.json and every evidence file against the schemas (run with python3-vt)
import json,sys,glob,jsonschema
m=json.load(open('/verif/MANIFEST.json')); jsonschema.validate(m,json.load(open('/root/.vp/MANIFEST.schema.json')))
print('manifest valid: checks=%d not_applicable=%d'%(len(m['checks']),len(m.get('not_applicable',[]))))
es=json.load(open('/root/.vp/EVIDENCE.schema.json'))
for f in sorted(glob.glob('/verif/evidence/*.json')):
    jsonschema.validate(json.load(open(f)),es); print('evidence valid:',f)
