#!/bin/bash
# dev helper: devrun.sh <scenario> <count> [seed] [opts-json]  -> builds scratch, runs one worker, prints summary
set -e
cd /verif
D=$(./vcheck build 2>/dev/null)
trap "rm -rf $D" EXIT
cd $D
VSIM_MODE=search VSIM_SCENARIO=$1 VSIM_SEED=${3:-1} VSIM_COUNT=$2 VSIM_BUDGET_MS=${BUDGET:-60000} VSIM_OPTS="${4:-{\}}" VSIM_OUT=$D/o.jsonl ./sim.test -test.run '^TestSim$' -test.timeout 300s 2>&1 | tail -${TAIL:-30}
python3 - <<PY
import json,collections
rs=[json.loads(l) for l in open('$D/o.jsonl')]
print(collections.Counter(r['result'] for r in rs))
if rs:
    print('steps avg',sum(r['steps'] for r in rs)/len(rs),'wall avg us',sum(r['wall_us'] for r in rs)/len(rs), 'nontrivial', sum(r['nontrivial'] for r in rs))
agg=collections.Counter()
for r in rs:
    for k,v in (r.get('counters') or {}).items(): agg[k]+=v
print(dict(agg))
rules=collections.Counter()
for r in rs:
    if r['result'] not in ('ok',):
        for f in r.get('failures') or []: rules[f['rule']]+=1
print(rules)
shown=0
for r in rs:
    if r['result'] not in ('ok',) and shown<int("${SHOW:-1}"):
        shown+=1
        fs=r.get('failures') or []
        for f in fs:
            print(f['rule'],'|',f['message'],'| step',f['step'],'vt',f['vtime_ns'], f.get('goroutine'))
            if f.get('stack'): print(f['stack'][:2500])
        print('blocked:',r.get('blocked'))
        print('plan:',json.dumps(r.get('plan'))[:2500])
PY
