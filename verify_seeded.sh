#!/bin/bash
# verify_seeded.sh <seeded-dir>... : confirm (1) suite passes with the change, (2) demo fails with it, (3) demo passes without.
# Runs in private net/mount namespaces so that concurrent suites (fixed tcp ports, /tmp/*.sock) cannot disturb each other.
export GOFLAGS=-mod=mod GOPROXY=off GOSUMDB=off
WT=/var/tmp/wtv-$$
git -C /repo worktree add -q --detach $WT HEAD || exit 2
trap "git -C /repo worktree remove --force $WT" EXIT
run_ns() { unshare -n -m sh -c "mount -t tmpfs tmpfs /tmp && mount -t tmpfs tmpfs /dev/shm && ip link set lo up && cd $WT && $1"; }
for d in "$@"; do
  id=$(basename $d)
  cd $WT && git checkout -q -- . && git clean -fdq
  if ! git apply $d/patch.diff 2>/dev/null; then echo "$id: PATCH DOES NOT APPLY"; continue; fi
  go test -c -vet=off -o /var/tmp/wtv-suite-$$.test . 2>/dev/null || { echo "$id: BUILD FAILS with change"; continue; }
  for try in 1 2 3 4 5; do
    suite=$(run_ns "/var/tmp/wtv-suite-$$.test -test.count=1 -test.timeout=20m >/var/tmp/wtv-suite-$$.log 2>&1; echo rc=\$?; grep -c -- '--- FAIL' /var/tmp/wtv-suite-$$.log")
    # the suite's known flake on a loaded machine (handshake timeout of 1 s -> panic in a test helper): run it again
    case "$suite" in rc=0*) break;; esac
    grep -q "protocolInitializer init timeout" /var/tmp/wtv-suite-$$.log || break
    suite="$suite (flake: protocolInitializer init timeout, try $try)"
  done
  cp $d/demo_test.go $WT/zz_seeded_demo_test.go
  go test -c -vet=off -o /var/tmp/wtv-demo-$$.test . 2>/dev/null || { echo "$id: DEMO BUILD FAILS"; rm -f $WT/zz_seeded_demo_test.go; continue; }
  names=$(grep -oE "^func (Test[A-Za-z0-9_]+)" $d/demo_test.go | awk '{print $2}' | paste -sd'|')
  with=$(run_ns "/var/tmp/wtv-demo-$$.test -test.count=1 -test.timeout=5m -test.run '^($names)\$' >/dev/null 2>&1; echo rc=\$?")
  git checkout -q -- . 
  go test -c -vet=off -o /var/tmp/wtv-demo-$$.test . 2>/dev/null
  without=$(run_ns "/var/tmp/wtv-demo-$$.test -test.count=1 -test.timeout=5m -test.run '^($names)\$' >/dev/null 2>&1; echo rc=\$?")
  rm -f $WT/zz_seeded_demo_test.go
  echo "$id: suite_with_change=[$suite] demo_with_change=[$with] demo_without=[$without]"
done
rm -f /var/tmp/wtv-suite-$$.test /var/tmp/wtv-demo-$$.test
