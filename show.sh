#!/bin/bash
# dev helper: show.sh <replay.json>
python3 - "$1" <<'PY'
import json,sys
r=json.load(open(sys.argv[1]))
print('=====',sys.argv[1]); print(json.dumps(r['plan'])); print('tape nonzero',sum(1 for x in r['tape'] if x), len(r['tape'])); v=r['violation']; print(v['rule'],'|',v['message'],'|',v.get('tags'),v.get('goroutine'))
st=(v.get('stack') or '').split('\n'); print('\n'.join(l for l in st if 'shmipc-go.' in l and 'simrt' not in l)[:1200])
print('\n'.join(l[:200] for l in (r.get('trace') or []) if ' W s' in l or ' R s' in l or 'CLOSE' in l or ' EV ' in l))
PY
