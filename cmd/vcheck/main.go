// Command vcheck is the driver of the deterministic-simulation checks
// (DESIGN.md §8): it copies /repo's working tree to a scratch directory,
// instruments it, adds the simulator runtime and harness, builds one test
// binary, runs seeded simulated executions on worker processes, minimises and
// replays failures, matches known findings and writes the evidence file.
//
// exit 0: property held on everything explored (known findings allowed)
// exit 1: at least one unlisted violation (VIOLATION line printed)
// exit 2: infrastructure trouble (build, watchdog, non-reproducible replay)
package main

import (
	"bufio"
	"crypto/sha256"
	"encoding/hex"
	"encoding/json"
	"flag"
	"fmt"
	"io"
	"io/fs"
	"os"
	"os/exec"
	"path/filepath"
	"runtime"
	"sort"
	"strconv"
	"strings"
	"sync"
	"time"
)

const goBin = "go1.26.8"

var (
	repoDir  = "/repo" // VERIF_REPO points a development run at a scratch worktree; registered commands never set it
	verifDir = "/verif"
)

type scenSpec struct {
	Name  string
	Share int               // share of the time budget
	Opts  map[string]string // passed to the worker (VSIM_OPTS)
}

type propSpec struct {
	ID           string
	Scenarios    []scenSpec
	Level        string
	QuickSec     int // wall-clock cap of the search phase (the run counts below normally end it earlier)
	ThoroughSec  int
	QuickRuns    int // runs 0..N-1 of the seed: with a fixed VERIF_SEED the explored set is a function of the tree alone
	ThoroughRuns int
	Rule         string // how cases are generated and what makes one non-trivial
	Assumptions  []string
	LevelText    string
	Note         string
	Technique    string
	DesignRef    string
}

var commonAssumptions = []string{
	"sequential consistency: interleavings are of whole loads/stores/atomics in program order (no weak-memory reorderings)",
	"the instrumenter's generic rewrites (sync, sync/atomic, x/sys/unix, go/chan/select/map-range, statement points) preserve the behaviours the Go spec allows",
	"synctest quiescence detection and fake clock (asynctimerchan=0 timer semantics)",
	"simulated kernel models Linux stream sockets / epoll-ET / SCM_RIGHTS no stricter than Linux",
	"only linux/amd64 layout is simulated",
}

var realComponents = []string{"every non-test file of package shmipc from /repo's working tree (instrumented, otherwise unmodified)", "mmap/memfd/tmpfs (real)"}
var stubComponents = []string{"kernel stream sockets, epoll, connect/accept, SCM_RIGHTS (simulated kernel ssys)", "sync primitives (ssync shims)", "sync/atomic (decision point + real atomic)", "gopool (plain simulated goroutines)", "sync.Pool (deterministic LIFO)", "clock (testing/synctest fake clock)", "timers and tickers (simulator-owned event heap, fired by the scheduler root in (deadline, creation) order)", "math/rand, os.Getpid"}

var props = map[string]*propSpec{}

func reg(p *propSpec) { props[p.ID] = p }

func init() {
	reg(&propSpec{ID: "C01", Level: "exploration", QuickSec: 40, ThoroughSec: 900, DesignRef: "6.C01",
		LevelText: "seeded exploration of interleavings (every atomic, statement and lock a decision point) of allocate/recycle programs run by threads of two simulated processes on the real free-list code over one shared mapping; ownership/geometry/signature invariants checked at every allocation, verify and recycle; violations minimised and replayed exactly. Sampling: a clean batch is evidence, not proof.",
		Scenarios: []scenSpec{{Name: "shmlist", Share: 1}},
		Rule:      "seeded generation of allocate/recycle programs (2-4 threads over creator and mapper views of one shared region, 1-2 size classes of 2-40 slots) x seeded schedules (random walk / PCT / targeted delay) with every atomic, statement and harness op a decision point; a run is non-trivial if it had more context switches than thread starts need and executed >2 allocator ops; distinct = distinct schedule signatures (hash of (process, site kind, site) at each context switch) among non-trivial runs"})
	reg(&propSpec{ID: "C02", Level: "exploration", QuickSec: 40, ThoroughSec: 900, DesignRef: "6.C02",
		LevelText: "same simulated executions as C01 with the conservation invariant evaluated by the scheduler root after every step at which no allocator operation is in flight (free count, own chain walk, tail), free+held<=capacity at every step, and full capacity after everything is recycled.",
		Scenarios: []scenSpec{{Name: "shmlist", Share: 1}},
		Rule:      "same runs as C01 with the conservation oracle: free count == capacity - held whenever no allocator op is in flight, chain walk from head visits exactly the free slots and ends at tail, free+held <= capacity at every step, full capacity after everything is recycled; non-trivial/distinct as for C01"})
	reg(&propSpec{ID: "C04", Level: "exploration", QuickSec: 40, ThoroughSec: 900, DesignRef: "6.C04",
		Scenarios: []scenSpec{{Name: "shmqueue", Share: 1}},
		LevelText: "seeded exploration of interleavings (single memory accesses as decision points) of 1-3 producer threads and the single consumer on the real ring code over one shared mapping, capacities 1-8, head/tail starting at 0, near 2^32 and beyond 2^40; the recorded invoke/return history is checked for linearizability against a bounded FIFO with porcupine, plus direct exactly-once / intact / per-producer order / 0<=tail-head<=cap checks at every step.",
		Rule:      "seeded generation of producer counts, put counts, consumer op sequences (pop/size/isEmpty), capacity and start index x seeded schedules; non-trivial = more context switches than thread starts need and at least one successful put and pop; distinct = distinct schedule signatures among non-trivial runs; histories <= 60 operations, porcupine Unknown counted as inconclusive (never reported)"})
	sessRule := "seeded generation of a session configuration (slice classes, queue capacity 1..8192, memfd or /dev/shm file, socket buffer 1 B..256 KiB, fragmentation, spurious EAGAIN), 1-5 multiplexed streams with writer/reader/callback programs on both ends (sizes anchored at slice capacities), neighbour threads that exhaust and scribble shared memory, process stalls x seeded schedules; non-trivial = more than 200 context switches and more than 3 harness operations; distinct = distinct schedule signatures among non-trivial runs"
	for _, c := range []struct{ id, ref, text string }{
		{"C05", "6.C05", "real sessions on the simulated kernel: after producers stop and every notification was delivered and handled (10 s of virtual silence) both receive queues are empty and no reader is still waiting for bytes that were flushed successfully"},
		{"C06", "6.C06", "byte-queue reference model per stream direction checked operation by operation (ReadBytes/Peek/Discard/ReadByte/ReadString/Read against WriteBytes/Reserve/WriteByte/WriteString/Write), Len() bounds and exact deltas, shared-memory, fallback and mixed transports"},
		{"C07", "6.C07", "keyed byte streams per (stream, direction): a reader only sees the next bytes of its own stream in flush order; end-of-stream only after every byte flushed successfully before the peer's Close was offered; exhaustion and queue-full windows flip individual messages to the socket"},
		{"C08", "6.C08", "every slice returned by ReadBytes/Peek is re-read after every later harness operation of any thread until it is released, with a scribbler neighbour overwriting whatever is free; after release everything is allocatable again"},
		{"C09", "6.C09", "after every stream is closed on both ends and 10 s of virtual silence no shared-memory buffer is allocated (own count over the free lists and GetMetrics), over histories with unread/pinned/pending data, failed flushes, fallback, late data for closed streams"},
		{"C10", "6.C10", "per stream end state-machine oracle: operations after a local Close fail, the stream stops counting as active, the peer gets end-of-stream and cannot send, callback ends are told exactly once; Close issued by writer, reader, main or from inside OnData"},
		{"C11", "6.C11", "bounded-virtual-time liveness: deadlines never fire early nor more than 1 s late, no read is still blocked 5 s (virtual) after the bytes it needs were flushed, its deadline passed or the peer's Close returned"},
		{"C20", "6.C20", "callback mode: bytes consumed inside OnData follow the keyed sequence, OnData is never re-entered per stream, never called after the local Close returned, and after 10 s of virtual silence every flushed byte has been offered"},
	} {
		scns := []scenSpec{{Name: "sess", Share: 1}}
		if c.id == "C09" {
			// pooled streams being reused (SessionManager / ReleaseReadAndReuse) are part of the property's histories
			scns = []scenSpec{{Name: "sess", Share: 3}, {Name: "mgr", Share: 1}}
		}
		reg(&propSpec{ID: c.id, Level: "exploration", QuickSec: 45, ThoroughSec: 1200, DesignRef: c.ref,
			Scenarios: scns, LevelText: c.text + ". Seeded search over schedules, fault sequences and generated workloads on the real package code; violations minimised and replayed exactly. Sampling, not proof.", Rule: sessRule})
	}
	reg(&propSpec{ID: "C14", Level: "fault_enumeration", QuickSec: 45, ThoroughSec: 1200, DesignRef: "6.C14",
		Scenarios: []scenSpec{{Name: "sess", Share: 1, Opts: map[string]string{"sweep": "1"}}},
		LevelText: "the session workload of C05-C11 with one fault injected at an exact scheduling step chosen from the tape (and, in the thorough tier, swept over the steps of sampled base runs): the peer process is killed (its goroutines frozen, its descriptors closed, shared memory left as it was), the connection is severed (with or without reset), or Session.Close is called once/twice/concurrently from foreign goroutines during traffic - during the handshake or at any later step. Oracle on the survivors: session closed within 5 s (virtual), no thread still blocked 30 s later, later calls fail, callback streams get exactly one close callback, no panic or access to unmapped memory (quarantined mappings), and after Close of both ends no descriptor, mapping or /dev/shm file of the session is left (ledger of the simulated kernel).",
		Rule:      sessRule + "; fault step drawn during the handshake (absolute step 5..400) or 0..5000 steps after establishment; fault kinds kill_client, kill_server, sever, sever_rst, close_client, close_server, close_both"})
	reg(&propSpec{ID: "C12", Level: "fault_enumeration", QuickSec: 35, ThoroughSec: 900, DesignRef: "6.C12",
		Scenarios: []scenSpec{{Name: "hs", Share: 1, Opts: map[string]string{"sweep": "1"}}},
		LevelText: "the real client and server handshakes over the simulated kernel for both mapping back-ends (memfd with fd passing -> protocol 3, /dev/shm file -> protocol 2), unix and tcp transport, with the peer made to stop answering (process frozen, connection open) or to die right after its k-th socket operation, k swept over the exchange; oracle: both ends succeed with the lower common version and the same buffer/queue memory seen through both mappings (pattern written through one mapping and read through the other, queues cross-wired), or both live ends fail within InitializeTimeout + 2 s, and after Close nothing (descriptor, memfd, mapping, file) is left in the ledger of the simulated kernel.",
		Rule:      "seeded session configurations x mapping type x transport x InitializeTimeout x fault (freeze|kill of client|server after its k-th socket operation, k in 0..13) x fragmentation x schedules; non-trivial = more than 2 socket operations were executed; distinct = distinct schedule signatures among non-trivial runs"})
	mgrRule := "seeded generation of a SessionManager configuration (1-3 sessions, pool capacity 1-4, rebuild interval 0.1-6 s), 1-4 caller threads doing GetStream/request/response/PutBack with keyed payloads (server-side close, unread responses, late unsolicited data, Close instead of PutBack), and a fault timeline (server killed/restarted, server-side sessions closed, hot restart with the new listener present, late or absent, repeated/stale epochs, SessionManager.Close) x seeded schedules; non-trivial = at least one use and more than 300 context switches; distinct = distinct schedule signatures among non-trivial runs"
	reg(&propSpec{ID: "C15", Level: "exploration", QuickSec: 45, ThoroughSec: 1200, DesignRef: "6.C15", Scenarios: []scenSpec{{Name: "mgr", Share: 1}}, Rule: mgrRule,
		LevelText: "the real SessionManager/streamPool against the real Listener on the simulated kernel: no stream is handed to two callers at once, a stream comes out of the pool without unread bytes and the response read on it belongs to the current use (payloads keyed by caller and use), and after everything settled each session's active-stream count equals what sits in its pool (callers hold nothing)."})
	reg(&propSpec{ID: "C16", Level: "exploration", QuickSec: 45, ThoroughSec: 1200, DesignRef: "6.C16", Scenarios: []scenSpec{{Name: "mgr", Share: 1}}, Rule: mgrRule,
		LevelText: "hot restart between two real Listener processes and a real SessionManager with client traffic running throughout: after the hand-over every pool holds a session of the announced epoch connected to the new server, listener and manager have left the hot-restart state within 12 s (virtual) of the last event whether the hand-over completed, failed or timed out, and uses issued afterwards succeed."})
	reg(&propSpec{ID: "C17", Level: "exploration", QuickSec: 45, ThoroughSec: 1200, DesignRef: "6.C17", Scenarios: []scenSpec{{Name: "mgr", Share: 1}}, Rule: mgrRule,
		LevelText: "server process killed and restarted, single server-side sessions closed, interleaved with hot restart and SessionManager.Close: calls made during the outage return (never hang), once a server is reachable every pool holds a live session again within rebuild interval + 12 s and uses succeed, and after Close the manager dials no more."})
	reg(&propSpec{ID: "C18", Level: "exploration", QuickSec: 40, ThoroughSec: 1200, DesignRef: "6.C18",
		Scenarios: []scenSpec{{Name: "evconn", Share: 3}, {Name: "sess", Share: 1}},
		LevelText: "the repository's real epoll dispatcher and connection handler on the simulated kernel: writes of 1 B .. 5 MiB (write and writev, buffer growth and the >4 MiB shrink path) through socket buffers of 1 B .. 1 MiB with partial writes, EAGAIN, spurious EAGAIN and fragmented reads, a reader callback that consumes a tape-chosen prefix per invocation (nothing, half, n bytes, all) and a stalled reader process; oracle: every callback buffer equals the not yet consumed bytes followed by new ones of the written stream, nothing is shown that was not written, everything written is eventually offered and consumed exactly once. Concurrent senders are exercised where the code provides the exclusion (real sessions: wake-ups, send loop, fallback data, close events from several threads): a tap on both connections is parsed by an independent reference parser that must find whole events only.",
		Rule:      "seeded write sequences (sizes anchored at 8, 4096, 65536, 1 MiB, 4 MiB +-1) x socket buffer size x consumption pattern x fragmentation x schedules; non-trivial = bytes were written and more than 20 context switches; distinct = distinct schedule signatures among non-trivial runs; plus the sess workload with the wire tap"})
	reg(&propSpec{ID: "C19", Level: "exploration", QuickSec: 40, ThoroughSec: 1200, DesignRef: "6.C19",
		Scenarios: []scenSpec{{Name: "netad", Share: 1}},
		LevelText: "the real Listen/Accept/streamWrapper adapter over the simulated kernel with 1-3 client sessions of 1-3 streams each, client Write calls and server Read calls of arbitrary sizes, echo traffic, deadlines, closes from either side and the listener closed at a tape-chosen moment (during handshakes, during traffic, or at the end); oracle: every stream the peer could see surfaces exactly once as a net.Conn carrying its own bytes in order, Write returns len(p) or an error, Read returns 1..len(p) bytes or an error, deadlines never fire early, operations after Close fail, closing the listener unblocks Accept within 5 s, and once every accepted connection is closed the server process holds no session resources (descriptor, memfd, mapping) any more.",
		Rule:      "seeded session/stream/write/read-size plans x backlog size x listener close time x session configuration x schedules; non-trivial = at least one connection was accepted and more than 200 context switches; distinct = distinct schedule signatures among non-trivial runs"})
	reg(&propSpec{ID: "C13", Level: "exploration", QuickSec: 40, ThoroughSec: 1200, DesignRef: "6.C13",
		Scenarios: []scenSpec{{Name: "fuzz", Share: 1}},
		LevelText: "real sessions (client and server role, handshake and established phase) whose control connection receives generated wire-format events mutated by truncation, inconsistent lengths, bad magic/version/type, wrong direction or phase, duplication and garbage, delivered under seeded fragmentations and schedules; oracle: no panic or memory fault in any goroutine of the victim process, handshake returns within InitializeTimeout + slack, another session of the same process still completes a round trip, and a well-formed byte string has the same observable effect however it is cut into reads (differential between two victims in the same run).",
		Rule:      "seeded generation of event sequences from the wire format + mutation operators x fragmentation patterns (1 byte .. all at once) x kernel read fragmentation x schedules; non-trivial = non-empty input and more than 50 context switches; distinct = distinct schedule signatures among non-trivial runs"})
	// Both tiers explore a fixed number of runs (run i of master seed s is a pure function of (s, i) and the tree), so
	// that a verdict for a given VERIF_SEED does not depend on the speed or load of the machine; the numbers are what
	// an idle 16-core sandbox does in about 45 s (quick) and 6-8 min (thorough). QuickSec/ThoroughSec only cap the
	// wall clock: a slower machine explores a prefix and says so.
	for id, n := range map[string][2]int{
		"C01": {160000, 1280000}, "C02": {160000, 1280000}, "C04": {200000, 1600000},
		"C05": {4500, 36000}, "C06": {5000, 40000}, "C07": {4400, 35200}, "C08": {6500, 52000}, "C09": {6500, 52000},
		"C10": {5200, 41600}, "C11": {6000, 48000}, "C20": {4800, 38400},
		"C12": {18000, 4000}, "C13": {5500, 44000}, "C14": {7500, 700}, // thorough C12/C14: base runs, each swept over its fault points
		"C15": {9500, 76000}, "C16": {4000, 32000}, "C17": {5500, 44000}, "C18": {3900, 31200}, "C19": {7000, 56000},
	} {
		props[id].QuickRuns, props[id].ThoroughRuns = n[0], n[1]
		props[id].QuickSec, props[id].ThoroughSec = 300, 3600
	}
}

type runRecord struct {
	Run        int64            `json:"run"`
	Seed       uint64           `json:"seed"`
	Scenario   string           `json:"scenario"`
	Steps      int64            `json:"steps"`
	Switches   int64            `json:"switches"`
	Preempts   int64            `json:"preempts"`
	VTimeNs    int64            `json:"vtime_ns"`
	Digest     string           `json:"digest"`
	Sig        string           `json:"sig"`
	Result     string           `json:"result"`
	Failures   []failure        `json:"failures,omitempty"`
	Counters   map[string]int64 `json:"counters,omitempty"`
	Kinds      map[string]int64 `json:"kinds,omitempty"`
	Nontrivial bool             `json:"nontrivial"`
	Leaked     int              `json:"leaked,omitempty"`
	Blocked    []string         `json:"blocked,omitempty"`
	Plan       json.RawMessage  `json:"plan,omitempty"`
	Tape       []uint32         `json:"tape,omitempty"`
	WallUs     int64            `json:"wall_us"`
	Other      []failure        `json:"other_property,omitempty"`
	Variant    bool             `json:"variant,omitempty"`
}

type failure struct {
	Rule  string            `json:"rule"`
	Msg   string            `json:"message"`
	Step  int64             `json:"step"`
	VTime int64             `json:"vtime_ns"`
	G     string            `json:"goroutine,omitempty"`
	Stack string            `json:"stack,omitempty"`
	Tags  map[string]string `json:"tags,omitempty"`
}

type replayFile struct {
	Format     int               `json:"format"`
	Property   string            `json:"property"`
	Scenario   string            `json:"scenario"`
	Tier       string            `json:"tier"`
	MasterSeed uint64            `json:"master_seed"`
	Run        int64             `json:"run"`
	RunSeed    uint64            `json:"run_seed"`
	Tree       string            `json:"tree,omitempty"`
	Opts       map[string]string `json:"opts,omitempty"`
	Plan       json.RawMessage   `json:"plan"`
	Tape       []uint32          `json:"tape"`
	Violation  *failure          `json:"violation,omitempty"`
	Digest     string            `json:"digest,omitempty"`
	Minimised  bool              `json:"minimised"`
	Trace      []string          `json:"trace,omitempty"`
}

type knownFinding struct {
	ID            string            `json:"id"`
	Property      string            `json:"property"`
	Status        string            `json:"status"` // open | fixed
	Commit        string            `json:"commit,omitempty"`
	Rule          string            `json:"rule"`
	Rules         []string          `json:"rules,omitempty"`
	Discriminator map[string]string `json:"discriminator"`
	What          string            `json:"what"`
}

func die(code int, format string, args ...interface{}) {
	fmt.Fprintf(os.Stderr, "vcheck: "+format+"\n", args...)
	os.Exit(code)
}

func goEnv() []string {
	env := os.Environ()
	env = append(env, "GOFLAGS=-mod=mod", "GOPROXY=off", "GOSUMDB=off", "GOTOOLCHAIN=local", "CGO_ENABLED=0")
	return env
}

func main() {
	if v := os.Getenv("VERIF_DIR"); v != "" {
		verifDir = v
	}
	if v := os.Getenv("VERIF_REPO"); v != "" {
		repoDir = v
	}
	if len(os.Args) < 2 {
		die(2, "usage: vcheck <property|replay|build|selftest-determinism> ...")
	}
	switch os.Args[1] {
	case "replay":
		os.Exit(cmdReplay(os.Args[2:]))
	case "build":
		dir, err := buildScratch(true)
		if err != nil {
			die(2, "%v", err)
		}
		fmt.Println(dir)
	case "selftest-determinism":
		os.Exit(cmdDeterminism(os.Args[2:]))
	case "manifest":
		cmdManifest()
	default:
		os.Exit(cmdCheck(os.Args[1], os.Args[2:]))
	}
}

// ---------------------------------------------------------------------------
// scratch build

func scratchRoot() string {
	if v := os.Getenv("VERIF_SCRATCH"); v != "" {
		return v
	}
	return "/var/tmp"
}

func copyFile(src, dst string) error {
	in, err := os.Open(src)
	if err != nil {
		return err
	}
	defer in.Close()
	if err := os.MkdirAll(filepath.Dir(dst), 0o755); err != nil {
		return err
	}
	out, err := os.Create(dst)
	if err != nil {
		return err
	}
	defer out.Close()
	_, err = io.Copy(out, in)
	return err
}

func copyTree(src, dst string, filter func(rel string, d fs.DirEntry) bool) error {
	return filepath.WalkDir(src, func(p string, d fs.DirEntry, err error) error {
		if err != nil {
			return err
		}
		rel, _ := filepath.Rel(src, p)
		if rel == "." {
			return nil
		}
		if !filter(rel, d) {
			if d.IsDir() {
				return filepath.SkipDir
			}
			return nil
		}
		if d.IsDir() {
			return os.MkdirAll(filepath.Join(dst, rel), 0o755)
		}
		return copyFile(p, filepath.Join(dst, rel))
	})
}

func treeID() string {
	rev, _ := exec.Command("git", "-C", repoDir, "rev-parse", "--short", "HEAD").Output()
	diff, _ := exec.Command("git", "-C", repoDir, "diff", "HEAD").Output()
	h := sha256.Sum256(diff)
	id := strings.TrimSpace(string(rev))
	if len(diff) > 0 {
		id += "+dirty:" + hex.EncodeToString(h[:6])
	}
	return id
}

// buildScratch copies /repo's current working tree, instruments it and builds the worker binary.
func buildScratch(verbose bool) (string, error) {
	dir, err := os.MkdirTemp(scratchRoot(), "vsim-")
	if err != nil {
		return "", err
	}
	// only the root package's non-test sources + module files
	err = copyTree(repoDir, dir, func(rel string, d fs.DirEntry) bool {
		if d.IsDir() {
			return false // the package is a single directory; sub-directories (example/, .git) are not part of it
		}
		if strings.HasSuffix(rel, "_test.go") {
			return false
		}
		return strings.HasSuffix(rel, ".go") || rel == "go.mod" || rel == "go.sum"
	})
	if err != nil {
		return dir, fmt.Errorf("copy repo: %w", err)
	}
	err = copyTree(filepath.Join(verifDir, "_overlay", "simrt"), filepath.Join(dir, "simrt"), func(rel string, d fs.DirEntry) bool { return true })
	if err != nil {
		return dir, fmt.Errorf("copy simrt: %w", err)
	}
	instr := filepath.Join(verifDir, "bin", "instr")
	cmd := exec.Command(instr, "-dir", dir)
	cmd.Env = goEnv()
	out, err := cmd.CombinedOutput()
	if err != nil {
		return dir, fmt.Errorf("instrumenter failed: %v\n%s", err, out)
	}
	if verbose {
		fmt.Fprint(os.Stderr, string(out))
	}
	err = copyTree(filepath.Join(verifDir, "_overlay", "harness"), dir, func(rel string, d fs.DirEntry) bool { return !d.IsDir() })
	if err != nil {
		return dir, fmt.Errorf("copy harness: %w", err)
	}
	// extra module requirement of the harness (porcupine), resolved from the module cache
	gm, err := os.ReadFile(filepath.Join(dir, "go.mod"))
	if err != nil {
		return dir, err
	}
	if !strings.Contains(string(gm), "anishathalye/porcupine") {
		gm = append(gm, []byte("\nrequire github.com/anishathalye/porcupine v1.3.0\n")...)
		if err := os.WriteFile(filepath.Join(dir, "go.mod"), gm, 0o644); err != nil {
			return dir, err
		}
	}
	build := exec.Command(goBin, "test", "-tags", "verif", "-vet=off", "-c", "-o", "sim.test", ".")
	build.Dir = dir
	build.Env = goEnv()
	out, err = build.CombinedOutput()
	if err != nil {
		return dir, fmt.Errorf("build of the instrumented package failed: %v\n%s", err, out)
	}
	return dir, nil
}

// ---------------------------------------------------------------------------
// running workers

type workerResult struct {
	recs []runRecord
	err  error
}

// library functions (methods as Type.name) seen in the function table of the instrumented copy -> entered by any run
var (
	fnMu    sync.Mutex
	fnReach = map[string]bool{}
)

func runWorkers(dir string, scn scenSpec, prop, tier string, master uint64, budget time.Duration, workers int, nruns int) ([]runRecord, error) {
	opts := map[string]string{"property": prop}
	for k, v := range scn.Opts {
		opts[k] = v
	}
	ob, _ := json.Marshal(opts)
	var wg sync.WaitGroup
	results := make([]workerResult, workers)
	for i := 0; i < workers; i++ {
		wg.Add(1)
		go func(i int) {
			defer wg.Done()
			outPath := filepath.Join(dir, fmt.Sprintf("out-%s-%d.jsonl", scn.Name, i))
			count := 1000000000 // time-bounded
			if nruns > 0 {
				count = 0
				if i < nruns {
					count = (nruns - i + workers - 1) / workers
				}
			}
			if count == 0 {
				return
			}
			cmd := exec.Command(filepath.Join(dir, "sim.test"), "-test.run", "^TestSim$", "-test.timeout", "0", "-test.cpu", "2")
			cmd.Dir = dir
			cmd.Env = append(os.Environ(),
				"VSIM_MODE=search", "VSIM_SCENARIO="+scn.Name, "VSIM_TIER="+tier,
				"VSIM_SEED="+strconv.FormatUint(master, 10),
				"VSIM_START="+strconv.Itoa(i), "VSIM_STRIDE="+strconv.Itoa(workers), "VSIM_COUNT="+strconv.Itoa(count),
				"VSIM_BUDGET_MS="+strconv.FormatInt(budget.Milliseconds(), 10),
				"VSIM_OUT="+outPath, "VSIM_OPTS="+string(ob), "VSIM_MAX_VIOLATIONS=100000", "GOMAXPROCS=2")
			var stderr strings.Builder
			cmd.Stderr = &stderr
			cmd.Stdout = &stderr
			err := cmd.Run()
			recs, rerr := readRecords(outPath)
			if err != nil {
				_ = os.MkdirAll(filepath.Join(verifDir, "replays", "tmp"), 0o755)
				_ = os.WriteFile(filepath.Join(verifDir, "replays", "tmp", "last_worker_error.log"), []byte(stderr.String()), 0o644)
				results[i] = workerResult{recs, fmt.Errorf("worker %d (%s): %v\n%s\n...\n%s", i, scn.Name, err, head(stderr.String(), 3000), tail(stderr.String(), 1500))}
				return
			}
			results[i] = workerResult{recs, rerr}
			if b, err := os.ReadFile(outPath + ".fn"); err == nil {
				var fr struct {
					Total []string `json:"total"`
					Hit   []string `json:"hit"`
				}
				if json.Unmarshal(b, &fr) == nil {
					fnMu.Lock()
					for _, n := range fr.Total {
						if _, ok := fnReach[n]; !ok {
							fnReach[n] = false
						}
					}
					for _, n := range fr.Hit {
						fnReach[n] = true
					}
					fnMu.Unlock()
				}
				os.Remove(outPath + ".fn")
			}
			os.Remove(outPath)
		}(i)
	}
	wg.Wait()
	var all []runRecord
	for _, r := range results {
		if r.err != nil {
			return nil, r.err
		}
		all = append(all, r.recs...)
	}
	sort.Slice(all, func(i, j int) bool { return all[i].Run < all[j].Run })
	return all, nil
}

func head(s string, n int) string {
	if len(s) > n {
		return s[:n]
	}
	return s
}

func tail(s string, n int) string {
	if len(s) > n {
		return s[len(s)-n:]
	}
	return s
}

func readRecords(path string) ([]runRecord, error) {
	f, err := os.Open(path)
	if err != nil {
		return nil, err
	}
	defer f.Close()
	var recs []runRecord
	r := bufio.NewReaderSize(f, 1<<20)
	for {
		line, err := r.ReadBytes('\n')
		if len(line) > 1 {
			var rec runRecord
			if e := json.Unmarshal(line, &rec); e != nil {
				return recs, fmt.Errorf("bad worker record: %v", e)
			}
			recs = append(recs, rec)
		}
		if err != nil {
			break
		}
	}
	return recs, nil
}

func runWorkerMode(dir, mode, replayPath, outPath string, budget time.Duration, trace bool) (string, error) {
	cmd := exec.Command(filepath.Join(dir, "sim.test"), "-test.run", "^TestSim$", "-test.timeout", "0")
	cmd.Dir = dir
	cmd.Env = append(os.Environ(), "VSIM_MODE="+mode, "VSIM_REPLAY="+replayPath, "VSIM_OUT="+outPath,
		"VSIM_BUDGET_MS="+strconv.FormatInt(budget.Milliseconds(), 10), "GOMAXPROCS=2")
	if trace {
		cmd.Env = append(cmd.Env, "VSIM_TRACE=1")
	}
	out, err := cmd.CombinedOutput()
	return string(out), err
}

// ---------------------------------------------------------------------------
// known findings

func loadKnown() []knownFinding {
	b, err := os.ReadFile(filepath.Join(verifDir, "known_findings.json"))
	if err != nil {
		return nil
	}
	var k []knownFinding
	if err := json.Unmarshal(b, &k); err != nil {
		die(2, "known_findings.json: %v", err)
	}
	return k
}

func matchKnown(known []knownFinding, prop string, f failure) *knownFinding {
	for i := range known {
		k := &known[i]
		if k.Status != "open" || k.Property != prop {
			continue
		}
		ruleOK := k.Rule == f.Rule
		for _, r := range k.Rules {
			if r == f.Rule || (r == "*" && len(k.Discriminator) > 0) { // "*": any rule, identified by the discriminator alone
				ruleOK = true
			}
		}
		if !ruleOK {
			continue
		}
		ok := true
		for dk, dv := range k.Discriminator {
			if dk == "panic_kind" {
				// applies to panics only: the recorded races corrupt or unmap memory under a user (nil slice, stale
				// index, quarantined mapping); a panic of any other kind (closed channel, nil map, negative
				// WaitGroup, an explicit panic of the library ...) is not an instance, whatever the tags say
				if f.Rule == "panic" && panicKind(f.Msg) != dv {
					ok = false
				}
				continue
			}
			if strings.HasPrefix(dk, "!") {
				// negated key: a failure that carries this tag value is not an instance of the finding
				if f.Tags[dk[1:]] == dv {
					ok = false
				}
				continue
			}
			if f.Tags[dk] != dv {
				ok = false
			}
		}
		if ok {
			return k
		}
	}
	return nil
}

// ---------------------------------------------------------------------------
// check

type evidence struct {
	PropertyID  string                 `json:"property_id"`
	Tier        string                 `json:"tier"`
	Seed        int64                  `json:"seed"`
	Level       string                 `json:"level"`
	Coverage    map[string]interface{} `json:"coverage"`
	Assumptions []string               `json:"assumptions"`
	WallS       float64                `json:"wall_s"`
	Violations  int                    `json:"violations"`
}

func cmdCheck(prop string, args []string) int {
	spec := props[prop]
	if spec == nil {
		die(2, "unknown property %q", prop)
	}
	fl := flag.NewFlagSet("check", flag.ExitOnError)
	tier := fl.String("tier", "", "quick|thorough")
	seedFlag := fl.Int64("seed", -1, "master seed (default VERIF_SEED or 1)")
	secs := fl.Int("seconds", 0, "time-bounded search of this many seconds instead of the tier's fixed number of runs (soaks, development)")
	runsFlag := fl.Int("runs", -1, "override the tier's number of runs (0 = time-bounded)")
	keep := fl.Bool("keep", false, "keep the scratch directory")
	workersFlag := fl.Int("workers", 0, "worker processes (default: number of CPUs)")
	_ = fl.Parse(args)
	if *tier == "" {
		*tier = os.Getenv("VERIF_TIER")
	}
	if *tier == "" {
		*tier = "quick"
	}
	master := int64(1)
	if v := os.Getenv("VERIF_SEED"); v != "" {
		if n, err := strconv.ParseInt(v, 10, 64); err == nil {
			master = n
		}
	}
	if *seedFlag >= 0 {
		master = *seedFlag
	}
	budgetSec := spec.QuickSec
	if *tier == "thorough" {
		budgetSec = spec.ThoroughSec
	}
	planned := spec.QuickRuns
	if *tier == "thorough" {
		planned = spec.ThoroughRuns
	}
	if *secs > 0 {
		budgetSec = *secs
		planned = 0
	}
	if *runsFlag >= 0 {
		planned = *runsFlag
	}
	workers := *workersFlag
	if workers <= 0 {
		workers = runtime.NumCPU()
	}
	start := time.Now()
	dir, err := buildScratch(false)
	if dir != "" && !*keep {
		defer os.RemoveAll(dir)
	}
	if err != nil {
		fmt.Fprintf(os.Stderr, "vcheck: BUILD FAILURE (exit 2, not a verdict): %v\n", err)
		if dir != "" && !*keep {
			os.RemoveAll(dir)
		}
		return 2
	}
	buildS := time.Since(start).Seconds()
	known := loadKnown()
	tree := treeID()

	totalShare := 0
	for _, s := range spec.Scenarios {
		totalShare += s.Share
	}
	var all []runRecord
	complete := true // every planned run was executed before the wall-clock cap
	perScn := map[string]map[string]interface{}{}
	for _, scn := range spec.Scenarios {
		b := time.Duration(float64(budgetSec) * float64(scn.Share) / float64(totalShare) * float64(time.Second))
		n := 0
		if planned > 0 {
			n = planned * scn.Share / totalShare
			if n < 1 {
				n = 1
			}
		}
		t0 := time.Now()
		recs, err := runWorkers(dir, scn, prop, *tier, uint64(master), b, workers, n)
		if err != nil {
			fmt.Fprintf(os.Stderr, "vcheck: WORKER FAILURE (exit 2, not a verdict): %v\n", err)
			return 2
		}
		done := 0
		for _, r := range recs {
			if !r.Variant {
				done++
			}
		}
		if n > 0 && done < n {
			complete = false
		}
		perScn[scn.Name] = map[string]interface{}{"runs": len(recs), "planned_runs": n, "wall_s": time.Since(t0).Seconds()}
		all = append(all, recs...)
	}

	// aggregate
	evals := len(all)
	sigs := map[string]bool{}
	counters := map[string]int64{}
	kinds := map[string]int64{}
	var vtime, steps, switches, preempts int64
	results := map[string]int{}
	var samples []interface{}
	otherProps := map[string]int{}
	type viol struct {
		rec runRecord
		f   failure
	}
	var viols []viol
	variants, bases := 0, 0
	for _, r := range all {
		if r.Variant {
			variants++
		} else {
			bases++
		}
		results[r.Result]++
		if r.Nontrivial {
			sigs[r.Scenario+":"+r.Sig] = true
		}
		for k, v := range r.Counters {
			counters[k] += v
		}
		for k, v := range r.Kinds {
			kinds[k] += v
		}
		vtime += r.VTimeNs
		steps += r.Steps
		switches += r.Switches
		preempts += r.Preempts
		for _, o := range r.Other {
			otherProps[o.Rule]++
		}
		if r.Result == "violation" && len(r.Failures) > 0 {
			viols = append(viols, viol{r, r.Failures[0]})
		} else if r.Plan != nil && len(samples) < 3 {
			samples = append(samples, map[string]interface{}{"scenario": r.Scenario, "run": r.Run, "seed": r.Seed, "plan": r.Plan, "tape_prefix": r.Tape, "steps": r.Steps, "switches": r.Switches, "result": r.Result})
		}
		if r.Result == "harness-error" {
			fmt.Fprintf(os.Stderr, "vcheck: HARNESS ERROR in run %d of %s (exit 2)\n", r.Run, r.Scenario)
			return 2
		}
	}
	if evals == 0 {
		fmt.Fprintln(os.Stderr, "vcheck: no run completed within the budget (exit 2)")
		return 2
	}

	// violations: group by (rule, known?) and process one representative per group
	exit := 0
	knownSeen := map[string]int{}
	knownSites := map[string]map[string]int{} // finding -> rule@innermost library function of a panic -> runs
	noteSite := func(id string, f failure) {
		if knownSites[id] == nil {
			knownSites[id] = map[string]int{}
		}
		site := f.Rule
		if f.Rule == "panic" {
			site += "@" + panicSite(f.Stack)
		}
		if os.Getenv("VCHECK_DEBUG_SITES") != "" && knownSites[id][site] == 0 {
			fmt.Fprintf(os.Stderr, "--- first %s of %s, tags %v:\n%s\n%s\n", site, id, f.Tags, f.Msg, f.Stack)
		}
		knownSites[id][site]++
	}
	reported := map[string]bool{}
	nViol := 0
	var violSamples []interface{}
	for _, v := range viols {
		if k := matchKnown(known, prop, v.f); k != nil {
			knownSeen[k.ID]++
			noteSite(k.ID, v.f)
			continue
		}
		nViol++
		key := v.rec.Scenario + "|" + v.f.Rule + "|" + panicSite(v.f.Stack)
		if reported[key] || len(reported) >= 4 {
			continue
		}
		reported[key] = true
		path, rf, err := writeAndMinimise(dir, prop, *tier, uint64(master), tree, v.rec, v.f)
		if err != nil {
			fmt.Fprintf(os.Stderr, "vcheck: REPLAY FAILURE (exit 2, not a verdict): %v\n", err)
			return 2
		}
		// the minimised run may turn out to be a known finding (tags are recomputed by the replay)
		if rf.Violation != nil {
			if k := matchKnown(known, prop, *rf.Violation); k != nil {
				knownSeen[k.ID]++
				noteSite(k.ID, *rf.Violation)
				nViol--
				os.Remove(path)
				continue
			}
		}
		fmt.Printf("VIOLATION property=%s replay=%s\n", prop, path)
		if rf.Violation != nil {
			fmt.Printf("  rule=%s step=%d: %s\n", rf.Violation.Rule, rf.Violation.Step, rf.Violation.Msg)
		}
		violSamples = append(violSamples, map[string]interface{}{"replay": path, "rule": v.f.Rule, "message": v.f.Msg})
		exit = 1
	}
	for _, k := range known {
		if k.Status == "open" && k.Property == prop {
			seen := knownSeen[k.ID]
			fmt.Printf("KNOWN-FINDING: property=%s %s: %s (seen in %d runs of this check)\n", prop, k.ID, k.What, seen)
		}
	}

	wall := time.Since(start).Seconds()
	searchS := wall - buildS
	faults := map[string]int64{}
	probes := map[string]int64{}
	other := map[string]int64{}
	for k, v := range counters {
		switch {
		case strings.HasPrefix(k, "fault."):
			faults[strings.TrimPrefix(k, "fault.")] = v
		case strings.HasPrefix(k, "probe."):
			probes[strings.TrimPrefix(k, "probe.")] = v
		default:
			other[k] = v
		}
	}
	faults["preemption"] = preempts
	if len(samples) == 0 && len(all) > 0 {
		r := all[0]
		samples = append(samples, map[string]interface{}{"scenario": r.Scenario, "run": r.Run, "seed": r.Seed, "steps": r.Steps, "switches": r.Switches, "result": r.Result})
	}
	cov := map[string]interface{}{
		"evaluations":                  evals,
		"distinct_nontrivial":          len(sigs),
		"rule":                         spec.Rule,
		"samples":                      samples,
		"results":                      results,
		"runs_per_hour":                int64(float64(evals) / searchS * 3600),
		"simulated_time_s":             float64(vtime) / 1e9,
		"scheduler_steps":              steps,
		"context_switches":             switches,
		"faults_fired":                 faults,
		"reach_probes":                 probes,
		"counters":                     other,
		"decision_kinds":               kinds,
		"scenarios":                    perScn,
		"real_components":              realComponents,
		"stub_components":              stubComponents,
		"known_findings_seen":          knownSeen,
		"known_findings_sites":         knownSites,
		"other_property_oracles_fired": otherProps,
		"violation_samples":            violSamples,
		"tree":                         tree,
		"workers":                      workers,
		"planned_runs":                 planned,
		"planned_runs_completed":       complete,
		"build_s":                      buildS,
		"exhaustive":                   false,
	}
	if len(fnReach) > 0 {
		var miss []string
		hit := 0
		for n, h := range fnReach {
			if h {
				hit++
			} else {
				miss = append(miss, n)
			}
		}
		sort.Strings(miss)
		cov["library_functions"] = map[string]interface{}{"total": len(fnReach), "entered_by_some_run": hit, "never_entered": miss,
			"note": "functions and methods of the non-test files of the package (instrumented copy); entered = called at least once in some run of this check"}
	}
	if variants > 0 {
		cov["fault_sweep"] = map[string]interface{}{"base_runs": bases, "fault_variants": variants,
			"note": "thorough tier: each base run (fault-free, same plan and seed) is re-executed with the fault placed at every enumerated point of it"}
	}
	ev := evidence{PropertyID: prop, Tier: *tier, Seed: master, Level: spec.Level, Coverage: cov,
		Assumptions: append(append([]string{}, commonAssumptions...), spec.Assumptions...), WallS: wall, Violations: nViol}
	eb, _ := json.MarshalIndent(ev, "", " ")
	_ = os.MkdirAll(filepath.Join(verifDir, "evidence"), 0o755)
	if err := os.WriteFile(filepath.Join(verifDir, "evidence", prop+".json"), eb, 0o644); err != nil {
		die(2, "write evidence: %v", err)
	}
	plan := "time-bounded"
	if planned > 0 {
		plan = fmt.Sprintf("planned=%d", planned)
		if !complete {
			plan += " (cut short by the wall-clock cap)"
		}
	}
	fmt.Printf("%s %s: runs=%d %s nontrivial-distinct=%d violations=%d known=%v wall=%.1fs (build %.1fs) seed=%d tree=%s\n",
		prop, *tier, evals, plan, len(sigs), nViol, knownSeen, wall, buildS, master, tree)
	return exit
}

// panicKind classifies a panic message: "memory" for the runtime errors that a use of recycled or unmapped memory
// produces, "other" for everything else.
func panicKind(msg string) string {
	for _, m := range []string{"nil pointer dereference", "invalid memory address", "index out of range", "slice bounds out of range", "unexpected fault address"} {
		if strings.Contains(msg, m) {
			return "memory"
		}
	}
	return "other"
}

// panicSite returns the innermost function of the package under test on a panic stack.
func panicSite(stack string) string {
	for _, l := range strings.Split(stack, "\n") {
		if strings.Contains(l, "shmipc-go.") && !strings.Contains(l, "/simrt") && !strings.Contains(l, "simrt.") && !strings.Contains(l, "sessWorld") && !strings.Contains(l, "Scenario") {
			if i := strings.Index(l, "shmipc-go."); i >= 0 {
				l = l[i+len("shmipc-go."):]
			}
			if i := strings.LastIndexByte(l, '('); i > 0 { // drop the argument list
				l = l[:i]
			}
			return strings.TrimSpace(l)
		}
	}
	return ""
}

func writeAndMinimise(dir, prop, tier string, master uint64, tree string, rec runRecord, f failure) (string, *replayFile, error) {
	rf := &replayFile{Format: 1, Property: prop, Scenario: rec.Scenario, Tier: tier, MasterSeed: master, Run: rec.Run, RunSeed: rec.Seed,
		Tree: tree, Opts: map[string]string{"property": prop}, Plan: rec.Plan, Tape: rec.Tape, Violation: &f, Digest: rec.Digest}
	b, _ := json.Marshal(rf)
	h := sha256.Sum256(b)
	name := hex.EncodeToString(h[:6])
	outDir := filepath.Join(verifDir, "replays", prop)
	_ = os.MkdirAll(outDir, 0o755)
	raw := filepath.Join(dir, "raw-"+name+".json")
	if err := os.WriteFile(raw, b, 0o644); err != nil {
		return "", nil, err
	}
	final := filepath.Join(outDir, name+".json")
	out, err := runWorkerMode(dir, "minimize", raw, final, 25*time.Second, false)
	if err != nil {
		return "", nil, fmt.Errorf("minimisation failed (the recorded run does not reproduce?): %v\n%s", err, tail(out, 3000))
	}
	mb, err := os.ReadFile(final)
	if err != nil {
		return "", nil, err
	}
	var mrf replayFile
	if err := json.Unmarshal(mb, &mrf); err != nil {
		return "", nil, err
	}
	// replay the minimised file in a fresh process: same rule, same step, same digest
	ok, msg := replayOnce(dir, final, &mrf)
	if !ok {
		return "", nil, fmt.Errorf("minimised replay %s does not reproduce exactly: %s", final, msg)
	}
	return final, &mrf, nil
}

func replayOnce(dir, path string, rf *replayFile) (bool, string) {
	outPath := filepath.Join(dir, "replay-out.json")
	out, err := runWorkerMode(dir, "replay", path, outPath, 0, false)
	if err != nil {
		return false, fmt.Sprintf("worker failed: %v\n%s", err, tail(out, 2000))
	}
	recs, err := readRecords(outPath)
	if err != nil || len(recs) != 1 {
		return false, fmt.Sprintf("no replay record (%v)", err)
	}
	r := recs[0]
	if rf.Violation == nil {
		if r.Result == "violation" {
			return false, "replay violates but file has no violation"
		}
		return true, ""
	}
	if r.Result != "violation" || len(r.Failures) == 0 {
		return false, "replay did not violate (result " + r.Result + ")"
	}
	f := r.Failures[0]
	if f.Rule != rf.Violation.Rule || f.Step != rf.Violation.Step {
		return false, fmt.Sprintf("replay fired %s at step %d, file says %s at step %d", f.Rule, f.Step, rf.Violation.Rule, rf.Violation.Step)
	}
	if rf.Digest != "" && r.Digest != rf.Digest {
		return false, fmt.Sprintf("digest mismatch %s vs %s", r.Digest, rf.Digest)
	}
	return true, ""
}

// ---------------------------------------------------------------------------
// replay command

func cmdReplay(args []string) int {
	fl := flag.NewFlagSet("replay", flag.ExitOnError)
	trace := fl.Bool("trace", false, "print the schedule trace")
	_ = fl.Parse(args)
	if fl.NArg() != 1 {
		die(2, "usage: vcheck replay [-trace] <file>")
	}
	path, _ := filepath.Abs(fl.Arg(0))
	b, err := os.ReadFile(path)
	if err != nil {
		die(2, "%v", err)
	}
	var rf replayFile
	if err := json.Unmarshal(b, &rf); err != nil {
		die(2, "%v", err)
	}
	dir, err := buildScratch(false)
	if dir != "" {
		defer os.RemoveAll(dir)
	}
	if err != nil {
		fmt.Fprintf(os.Stderr, "vcheck: BUILD FAILURE: %v\n", err)
		return 2
	}
	outPath := filepath.Join(dir, "replay-out.json")
	out, err := runWorkerMode(dir, "replay", path, outPath, 0, *trace)
	if err != nil {
		fmt.Fprintf(os.Stderr, "vcheck: replay worker failed: %v\n%s\n", err, tail(out, 3000))
		return 2
	}
	rb, _ := os.ReadFile(outPath)
	var rec map[string]interface{}
	_ = json.Unmarshal(rb, &rec)
	if *trace {
		if tr, ok := rec["trace"].([]interface{}); ok {
			for _, l := range tr {
				fmt.Println(l)
			}
		}
	}
	recs, _ := readRecords(outPath)
	if len(recs) != 1 {
		fmt.Fprintln(os.Stderr, "vcheck: no replay record")
		return 2
	}
	r := recs[0]
	fmt.Printf("replay %s: result=%s steps=%d digest=%s\n", filepath.Base(path), r.Result, r.Steps, r.Digest)
	for _, f := range r.Failures {
		fmt.Printf("  rule=%s step=%d vtime=%dns %s tags=%v\n    %s\n", f.Rule, f.Step, f.VTime, f.G, f.Tags, f.Msg)
		if f.Stack != "" {
			fmt.Println(f.Stack)
		}
	}
	if r.Result == "violation" && len(r.Failures) > 0 {
		if k := matchKnown(loadKnown(), rf.Property, r.Failures[0]); k != nil {
			fmt.Printf("KNOWN-FINDING: property=%s %s: %s\n", rf.Property, k.ID, k.What)
			return 0
		}
	}
	if r.Result == "violation" {
		if rf.Violation != nil && len(r.Failures) > 0 && (r.Failures[0].Rule != rf.Violation.Rule || r.Failures[0].Step != rf.Violation.Step) {
			fmt.Printf("NOTE: differs from the recorded violation (%s at step %d) - the tree changed?\n", rf.Violation.Rule, rf.Violation.Step)
		}
		fmt.Printf("VIOLATION property=%s replay=%s\n", rf.Property, path)
		return 1
	}
	return 0
}

// ---------------------------------------------------------------------------
// determinism self-test: same seed => same digests, across processes and GOMAXPROCS

func cmdDeterminism(args []string) int {
	fl := flag.NewFlagSet("det", flag.ExitOnError)
	nseeds := fl.Int("seeds", 30, "master seeds")
	runs := fl.Int("runs", 40, "runs per seed and scenario")
	scnFlag := fl.String("scenarios", "", "comma separated (default: all registered)")
	_ = fl.Parse(args)
	dir, err := buildScratch(false)
	if dir != "" {
		defer os.RemoveAll(dir)
	}
	if err != nil {
		fmt.Fprintf(os.Stderr, "vcheck: BUILD FAILURE: %v\n", err)
		return 2
	}
	// one job family per (property, scenario): the property selects generator biases and oracles
	var names []string
	if *scnFlag != "" {
		names = strings.Split(*scnFlag, ",")
	} else {
		for id, p := range props {
			for _, s := range p.Scenarios {
				names = append(names, id+":"+s.Name)
			}
		}
		sort.Strings(names)
	}
	bad := 0
	total := 0
	type job struct {
		scn  string
		seed int
	}
	jobs := make(chan job, 1024)
	var mu sync.Mutex
	var wg sync.WaitGroup
	for w := 0; w < runtime.NumCPU()/2+1; w++ {
		wg.Add(1)
		go func() {
			defer wg.Done()
			for j := range jobs {
				var ref []string
				for vi, procs := range []string{"1", "4", "16", "2"} {
					outPath := filepath.Join(dir, fmt.Sprintf("det-%s-%d-%d.jsonl", strings.ReplaceAll(j.scn, ":", "_"), j.seed, vi))
					cmd := exec.Command(filepath.Join(dir, "sim.test"), "-test.run", "^TestSim$", "-test.timeout", "0")
					cmd.Dir = dir
					prop, scnName := "", j.scn
					if i := strings.IndexByte(j.scn, ':'); i >= 0 {
						prop, scnName = j.scn[:i], j.scn[i+1:]
					}
					cmd.Env = append(os.Environ(), "VSIM_MODE=search", "VSIM_SCENARIO="+scnName, "VSIM_TIER=quick", "VSIM_OPTS={\"property\":\""+prop+"\"}",
						"VSIM_SEED="+strconv.Itoa(j.seed), "VSIM_START=0", "VSIM_STRIDE=1", "VSIM_COUNT="+strconv.Itoa(*runs),
						"VSIM_BUDGET_MS=600000", "VSIM_MAX_VIOLATIONS=1000000", "VSIM_OUT="+outPath, "GOMAXPROCS="+procs)
					if out, err := cmd.CombinedOutput(); err != nil {
						mu.Lock()
						fmt.Printf("DETERMINISM: worker failed for %s seed %d: %v\n%s\n", j.scn, j.seed, err, tail(string(out), 2000))
						bad++
						mu.Unlock()
						break
					}
					recs, _ := readRecords(outPath)
					os.Remove(outPath)
					var ds []string
					for _, r := range recs {
						ds = append(ds, fmt.Sprintf("%d:%s:%s:%d", r.Run, r.Digest, r.Result, r.Steps))
					}
					mu.Lock()
					total += len(recs)
					if vi == 0 {
						ref = ds
					} else if strings.Join(ref, ",") != strings.Join(ds, ",") {
						bad++
						for i := range ref {
							if i >= len(ds) || ref[i] != ds[i] {
								fmt.Printf("DETERMINISM MISMATCH scenario=%s seed=%d GOMAXPROCS=%s: %s vs %s\n", j.scn, j.seed, procs, ref[i], func() string {
									if i < len(ds) {
										return ds[i]
									}
									return "<missing>"
								}())
								break
							}
						}
					}
					mu.Unlock()
				}
			}
		}()
	}
	for _, n := range names {
		for s := 1; s <= *nseeds; s++ {
			jobs <- job{n, s}
		}
	}
	close(jobs)
	wg.Wait()
	fmt.Printf("determinism self-test: scenarios=%v seeds=%d runs/seed=%d executions=%d (x4 process configurations) mismatches=%d\n", names, *nseeds, *runs, total, bad)
	if bad > 0 {
		return 2
	}
	return 0
}

// ---------------------------------------------------------------------------
// MANIFEST.json is generated from the property table so that it never drifts

var notApplicable = map[string]string{
	"C03": "pure function of the configuration (layout arithmetic of create*/mapping* and the queue split): no schedule, clock, fault or interleaving for a simulator to control - deciding it here would be input generation in simulator vocabulary (DESIGN.md section 6.C03)",
}

func cmdManifest() {
	type check struct {
		PropertyID   string                 `json:"property_id"`
		QuickCmd     string                 `json:"quick_cmd"`
		ThoroughCmd  string                 `json:"thorough_cmd"`
		EvidenceFile string                 `json:"evidence_file"`
		ReplayCmd    string                 `json:"replay_cmd_template"`
		Engine       string                 `json:"engine"`
		Level        map[string]interface{} `json:"level_claimed"`
		LevelNote    string                 `json:"level_note"`
		Technique    string                 `json:"technique"`
	}
	var ids []string
	for id := range props {
		ids = append(ids, id)
	}
	sort.Strings(ids)
	var checks []check
	for _, id := range ids {
		p := props[id]
		tech := p.Technique
		if tech == "" {
			tech = "deterministic simulation with fault injection: seeded search over schedules x fault sequences x generated workloads on the real code, invariants + reference model as oracle"
		}
		note := p.Note
		if note == "" {
			note = "trusted: Go toolchain/runtime, synctest quiescence + fake clock, the generic source instrumenter, the simulated kernel (sockets/epoll/SCM_RIGHTS no stricter than Linux), the oracle; sequential consistency assumed; sampling, not proof"
		}
		checks = append(checks, check{
			PropertyID: id, QuickCmd: "./vcheck " + id + " --tier quick", ThoroughCmd: "./vcheck " + id + " --tier thorough",
			EvidenceFile: "evidence/" + id + ".json", ReplayCmd: "./vcheck replay {path}", Engine: "shmsim",
			Level: map[string]interface{}{"category": p.Level, "text": p.LevelText, "design_ref": p.DesignRef}, LevelNote: note, Technique: tech,
		})
	}
	type na struct {
		PropertyID string `json:"property_id"`
		Reason     string `json:"reason"`
	}
	var nas []na
	for i := 1; i <= 20; i++ {
		id := fmt.Sprintf("C%02d", i)
		if props[id] != nil {
			continue
		}
		r, ok := notApplicable[id]
		if !ok {
			r = "not claimed yet: the scenario for this property is designed (DESIGN.md section 6) but its check is not built/validated at this commit"
		}
		nas = append(nas, na{id, r})
	}
	m := map[string]interface{}{
		"version":   1,
		"setup_cmd": "./setup.sh",
		"hooks": map[string]interface{}{
			"guard":            "verif",
			"enable":           "no hooks are committed in /repo: every check copies /repo's working tree to a scratch directory, rewrites the copy with the type-aware instrumenter (/verif/instr), adds the simulator runtime and the in-package harness (build tag verif) and builds that copy with go1.26.8",
			"baseline_off_cmd": "cd /repo && go test -vet=off -count=1 -timeout 25m ./...",
			"source_commits":   []string{},
			"add_only":         true,
		},
		"engines": []map[string]interface{}{{
			"name": "shmsim", "path": "/verif", "serves_properties": ids,
			"kind_free_text": "deterministic simulation with fault injection: token scheduler over testing/synctest, seeded tape, simulated kernel (sockets, epoll, SCM_RIGHTS), per-process globals, build-time source instrumentation of the real package",
		}},
		"checks":         checks,
		"not_applicable": nas,
		"notes":          "exit 0 = held on everything explored (KNOWN-FINDING lines allowed), 1 = unlisted violation with replay file, 2 = build/instrumentation/watchdog/replay-mismatch trouble (never a verdict). VERIF_SEED selects the master seed. See DESIGN.md.",
	}
	b, _ := json.MarshalIndent(m, "", " ")
	fmt.Println(string(b))
}
