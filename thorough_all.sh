#!/bin/bash
# runs the thorough tier of every claimed property (used with `vp run`); prints one summary line per property
./setup.sh >/dev/null || exit 2
seed=${1:-1}
for p in ${2:-C01 C02 C04 C05 C06 C07 C08 C09 C10 C11 C12 C13 C14 C15 C16 C17 C18 C19 C20}; do
  VERIF_DIR=$PWD ./vcheck $p --tier thorough --seed $seed 2>&1 | grep -v "^KNOWN" | tail -4 | cut -c1-400
  echo "exit=${PIPESTATUS[0]} property=$p"
done
