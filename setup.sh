#!/bin/bash
# MANIFEST.setup_cmd: build the instrumenter and the driver from files on disk only (offline).
set -e
cd "$(dirname "$0")"
export GOFLAGS=-mod=mod GOPROXY=off GOSUMDB=off GOTOOLCHAIN=local CGO_ENABLED=0
mkdir -p bin evidence replays
go1.26.8 build -o bin/instr ./instr
go1.26.8 build -o bin/vcheck ./cmd/vcheck
echo "setup ok"
