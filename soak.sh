#!/bin/bash
# soak: quick tier of every claimed property at several seeds, longer than the registered default (used with `vp run`)
./setup.sh >/dev/null || exit 2
secs=${1:-130}; shift
for seed in "${@:-2 3}"; do
for p in C01 C02 C04 C05 C06 C07 C08 C09 C10 C11 C12 C13 C14 C15 C16 C17 C18 C19 C20; do
  VERIF_DIR=$PWD ./vcheck $p --tier quick --seed $seed --seconds $secs 2>&1 | grep -v "^KNOWN" | tail -3 | cut -c1-500
  echo "exit=${PIPESTATUS[0]} property=$p seed=$seed"
done
done
