#!/bin/bash
# dev helper: seedcheck.sh <seeded-dir> <property> [seconds]  - apply a seeded change to /repo, run the property's check, undo
d=$1; prop=$2; secs=${3:-30}
cd /repo || exit 2
git status --short | grep -q . && { echo "repo dirty"; exit 2; }
git apply "$d/patch.diff" || { echo "PATCH DOES NOT APPLY: $d"; exit 2; }
cd /verif
out=$(./vcheck $prop --tier quick --seconds $secs 2>&1 | grep -v "^KNOWN")
rc=$?
git -C /repo checkout -- .
echo "=== $(basename $d) -> $prop: $(echo "$out" | tail -1)"
echo "$out" | grep -E "VIOLATION|rule=" | head -6
