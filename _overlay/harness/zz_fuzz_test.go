//go:build verif

package shmipc

// Scenario fuzz (C13): real sessions whose control connection receives
// arbitrary bytes: generated events of the wire format, then mutated
// (truncation, wrong lengths, bad magic/version/type, wrong direction or phase,
// duplicates, garbage), delivered under several fragmentations, in the
// handshake phase (scripted adversary peer) and in the established phase
// (bytes injected into the victim's connection). Oracle: no panic / memory
// fault in the victim process, the victim continues or closes only that
// session, a second healthy session still works, and for well-formed sequences
// the observable effect does not depend on the fragmentation.

import (
	"encoding/binary"
	"encoding/json"
	"fmt"
	"sort"
	"time"

	"github.com/cloudwego/shmipc-go/simrt"
	"github.com/cloudwego/shmipc-go/simrt/simnet"
	"github.com/cloudwego/shmipc-go/simrt/ssys"
)

type fuzzEvent struct {
	Type    int    `json:"type"`
	Version int    `json:"ver"`
	Magic   int    `json:"magic"`
	Len     int64  `json:"len"`     // value of the length field (-1 = correct)
	Payload []byte `json:"payload"` // bytes after the 8-byte header
	Cut     int    `json:"cut"`     // send only the first Cut bytes of the event (-1 = all)
}

type fuzzPlan struct {
	Sim        SimKnobs    `json:"sim"`
	Cfg        sessCfg     `json:"cfg"`
	Phase      string      `json:"phase"`       // established | handshake
	VictimRole string      `json:"victim_role"` // client | server
	Events     []fuzzEvent `json:"events"`
	Chunks     []int       `json:"chunks"`      // fragmentation of the byte string for victim A (cycled); victim B gets it in one piece
	WellFormed bool        `json:"well_formed"` // differential check applies
	Listener   bool        `json:"listener"`    // server victim is owned by a Listener (has the hot-restart plumbing)
	Manager    bool        `json:"manager"`     // client victim is owned by a SessionManager
}

type fuzzScenario struct{}

func init() { scenarios["fuzz"] = fuzzScenario{} }

func (fuzzScenario) Decode(raw json.RawMessage) (interface{}, error) {
	var p fuzzPlan
	err := json.Unmarshal(raw, &p)
	return &p, err
}

func (fuzzScenario) Knobs(plan interface{}) SimKnobs { return plan.(*fuzzPlan).Sim }

func encodeEvent(e fuzzEvent) []byte {
	b := make([]byte, headerSize+len(e.Payload))
	l := uint32(len(b))
	if e.Len >= 0 {
		l = uint32(e.Len)
	}
	binary.BigEndian.PutUint32(b[0:4], l)
	binary.BigEndian.PutUint16(b[4:6], uint16(e.Magic))
	b[6] = byte(e.Version)
	b[7] = byte(e.Type)
	copy(b[headerSize:], e.Payload)
	if e.Cut >= 0 && e.Cut < len(b) {
		b = b[:e.Cut]
	}
	return b
}

func validEvent(r *Rng, streams int) fuzzEvent {
	e := fuzzEvent{Version: int(r.Pick(2, 3)), Magic: int(magicNumber), Len: -1, Cut: -1}
	switch r.Intn(6) {
	case 0:
		e.Type = int(typePolling)
	case 1:
		e.Type = int(typeStreamClose)
		e.Payload = make([]byte, 4)
		binary.BigEndian.PutUint32(e.Payload, uint32(2+r.Intn(streams+1)))
	default:
		e.Type = int(typeFallbackData)
		n := r.Pick(0, 1, 7, 100, 5000)
		e.Payload = make([]byte, 8+n)
		binary.BigEndian.PutUint32(e.Payload[0:4], uint32(2+r.Intn(streams)))
		binary.BigEndian.PutUint32(e.Payload[4:8], uint32(r.Pick(0, 0, 0, 1))) // status: opened / closed
		for i := 0; i < n; i++ {
			e.Payload[8+i] = byte(i*31 + n)
		}
	}
	return e
}

func mutateEvent(r *Rng, e fuzzEvent) fuzzEvent {
	full := headerSize + len(e.Payload)
	switch r.Intn(14) {
	case 0:
		e.Len = int64(r.Intn(headerSize)) // shorter than the header
	case 1:
		e.Len = int64(headerSize + r.Intn(8)) // shorter than the fixed fields of most events
	case 2:
		e.Len = int64(full + 1 + r.Intn(100)) // longer than the data that follows
	case 3:
		e.Len = int64(0xffffffff)
	case 4:
		e.Len = int64(0x7fffffff)
	case 5:
		e.Magic = r.Intn(65536)
	case 6:
		e.Version = 0
	case 7:
		e.Version = r.Pick(1, 4, 9, 255)
	case 8:
		e.Type = r.Pick(10, 11, 100, 255)
	case 9:
		// wrong direction / phase
		e.Type = r.Pick(int(typeHotRestart), int(typeHotRestartAck), int(typeShareMemoryByFilePath), int(typeExchangeProtoVersion), int(typeShareMemoryByMemfd), int(typeAckShareMemory), int(typeAckReadyRecvFD))
		if e.Type == int(typeHotRestart) || e.Type == int(typeHotRestartAck) {
			e.Payload = make([]byte, r.Pick(0, 3, 8, 8, 8))
			for i := range e.Payload {
				e.Payload[i] = byte(r.Intn(256))
			}
		}
	case 10:
		if full > 1 {
			e.Cut = 1 + r.Intn(full-1) // truncated (the connection then stays silent or continues with the next event)
		}
	case 11:
		if len(e.Payload) > 0 {
			e.Payload = e.Payload[:r.Intn(len(e.Payload))] // payload shorter than its own fixed part, length field consistent
		}
	case 12:
		e.Payload = make([]byte, r.Pick(1, 3, 9, 17))
		for i := range e.Payload {
			e.Payload[i] = byte(r.Intn(256))
		}
	default:
		// garbage event
		e.Magic, e.Version, e.Type = r.Intn(65536), r.Intn(256), r.Intn(256)
		e.Len = int64(r.Intn(1 << 20))
	}
	return e
}

func (fuzzScenario) Gen(r *Rng, tier string, opts map[string]string) interface{} {
	p := &fuzzPlan{Sim: genKnobs(r, false), Cfg: genSessCfg(r)}
	p.Sim.HorizonSec = 300
	p.Cfg.QueueCap = uint32(r.Pick(4, 64, 8192))
	if r.Chance(2, 3) {
		p.Phase = "established"
	} else {
		p.Phase = "handshake"
	}
	if r.Chance(1, 2) {
		p.VictimRole = "server"
		p.Listener = r.Chance(1, 2)
	} else {
		p.VictimRole = "client"
		p.Manager = true // client sessions are only ever created by a SessionManager (there is no public client constructor)
	}
	streams := 1 + r.Intn(3)
	n := 1 + r.Intn(6)
	p.WellFormed = p.Phase == "established" && r.Chance(1, 3)
	for i := 0; i < n; i++ {
		e := validEvent(r, streams)
		if !p.WellFormed && r.Chance(2, 3) {
			e = mutateEvent(r, e)
		}
		p.Events = append(p.Events, e)
		if !p.WellFormed && r.Chance(1, 8) {
			p.Events = append(p.Events, e) // duplicate
		}
	}
	if p.Phase == "handshake" {
		// handshake-phase events: start from the messages a real peer would send
		p.Events = nil
		vt := r.Pick(2, 3)
		seq := []fuzzEvent{}
		if p.VictimRole == "server" {
			// adversary plays the client
			if vt == 3 {
				seq = append(seq, fuzzEvent{Type: int(typeExchangeProtoVersion), Version: 3, Magic: int(magicNumber), Len: -1, Cut: -1})
				seq = append(seq, metaEvent(int(r.Pick(int(typeShareMemoryByFilePath), int(typeShareMemoryByMemfd))), 3, r))
			} else {
				seq = append(seq, metaEvent(int(typeShareMemoryByFilePath), 2, r))
			}
		} else {
			// adversary plays the server
			seq = append(seq, fuzzEvent{Type: int(typeExchangeProtoVersion), Version: int(r.Pick(2, 3, 3, 4)), Magic: int(magicNumber), Len: -1, Cut: -1})
			seq = append(seq, fuzzEvent{Type: int(typeAckReadyRecvFD), Version: 3, Magic: int(magicNumber), Len: -1, Cut: -1})
			seq = append(seq, fuzzEvent{Type: int(typeAckShareMemory), Version: 3, Magic: int(magicNumber), Len: -1, Cut: -1})
		}
		for _, e := range seq {
			if r.Chance(1, 2) {
				e = mutateEvent(r, e)
			}
			p.Events = append(p.Events, e)
		}
		if r.Chance(1, 3) {
			p.Events = append(p.Events, mutateEvent(r, validEvent(r, 1)))
		}
	}
	nc := 1 + r.Intn(5)
	for i := 0; i < nc; i++ {
		p.Chunks = append(p.Chunks, r.Pick(1, 1, 2, 3, 7, 8, 9, 16, 100, 100000))
	}
	return p
}

func metaEvent(typ int, ver int, r *Rng) fuzzEvent {
	qp := "/dev/shm/vsim-nonexistent-queue"
	bp := "/dev/shm/vsim-nonexistent-buffer"
	pl := make([]byte, 2+len(qp)+2+len(bp))
	binary.BigEndian.PutUint16(pl[0:2], uint16(len(qp)))
	copy(pl[2:], qp)
	binary.BigEndian.PutUint16(pl[2+len(qp):], uint16(len(bp)))
	copy(pl[4+len(qp):], bp)
	if r.Chance(1, 3) {
		// inner length prefixes that disagree with the body
		binary.BigEndian.PutUint16(pl[0:2], uint16(r.Pick(0, 1, 200, 65535)))
	}
	return fuzzEvent{Type: typ, Version: ver, Magic: int(magicNumber), Len: -1, Cut: -1, Payload: pl}
}

func (fuzzScenario) Shrink(plan interface{}) []interface{} {
	p := plan.(*fuzzPlan)
	clone := func() *fuzzPlan {
		b, _ := json.Marshal(p)
		var q fuzzPlan
		_ = json.Unmarshal(b, &q)
		return &q
	}
	var out []interface{}
	for i := range p.Events {
		if len(p.Events) > 1 {
			q := clone()
			q.Events = append(q.Events[:i], q.Events[i+1:]...)
			out = append(out, q)
		}
	}
	if len(p.Chunks) > 1 || (len(p.Chunks) == 1 && p.Chunks[0] != 100000) {
		q := clone()
		q.Chunks = []int{100000}
		out = append(out, q)
	}
	for i, e := range p.Events {
		if len(e.Payload) > 8 {
			q := clone()
			q.Events[i].Payload = q.Events[i].Payload[:8]
			out = append(out, q)
		}
	}
	if p.Cfg.FragR || p.Cfg.FragW || p.Cfg.Spurious != 0 {
		q := clone()
		q.Cfg.FragR, q.Cfg.FragW, q.Cfg.Spurious = false, false, 0
		out = append(out, q)
	}
	if p.Sim.PointMean != 0 {
		q := clone()
		q.Sim.PointMean = 0
		out = append(out, q)
	}
	return out
}

type nopListenCb struct{}

func (nopListenCb) OnNewStream(s *Stream) {}
func (nopListenCb) OnShutdown(r string)   {}

type recListenCb struct {
	streams map[uint32]*Stream
	order   []uint32
}

func (c *recListenCb) OnNewStream(s *Stream) {
	c.streams[s.StreamID()] = s
	c.order = append(c.order, s.StreamID())
}
func (c *recListenCb) OnShutdown(r string) {}

// observe returns the observable state of a victim session after the input was consumed.
func observeSession(s *Session, cb *recListenCb) string {
	out := fmt.Sprintf("closed=%v", s.IsClosed())
	if cb == nil {
		return out
	}
	ids := make([]int, 0, len(cb.streams))
	for id := range cb.streams {
		ids = append(ids, int(id))
	}
	sort.Ints(ids)
	for _, id := range ids {
		st := cb.streams[uint32(id)]
		st.pendingData.moveTo(st.recvBuf)
		h := uint32(2166136261)
		n := 0
		for sl := st.recvBuf.sliceList.front(); sl != nil; sl = sl.next() {
			for _, b := range sl.data[sl.readIndex:sl.writeIndex] {
				h = (h ^ uint32(b)) * 16777619
				n++
			}
		}
		out += fmt.Sprintf(" s%d[state=%d n=%d h=%08x]", id, st.getStreamState(), n, h)
	}
	out += fmt.Sprintf(" order=%v", cb.order)
	return out
}

func (fuzzScenario) Run(s *simrt.Sim, plan interface{}, opts map[string]string) (*simrt.Proc, func()) {
	p := plan.(*fuzzPlan)
	ssys.NewKernel(s, p.Cfg.kernel())
	installGlobals(s)
	pv := newProc(s, "victim", 4001)
	pa := newProc(s, "adversary", 4002)
	dir := newRunDir(s)
	var input []byte
	for _, e := range p.Events {
		input = append(input, encodeEvent(e)...)
	}
	main := func() {
		if p.Phase == "handshake" {
			fuzzHandshake(p, pv, pa, dir, input)
		} else {
			fuzzEstablished(p, pv, pa, dir, input)
		}
	}
	s.OnEnd = append(s.OnEnd, func() {
		s.Counters["fuzz.input_bytes"] = int64(len(input))
		s.Counters["fuzz.events"] = int64(len(p.Events))
	})
	return pv, main
}

// sendChunked writes data to fd in the plan's fragmentation with scheduling points in between.
func sendChunked(fd int, data []byte, chunks []int) {
	i := 0
	for len(data) > 0 {
		n := 100000
		if len(chunks) > 0 {
			n = chunks[i%len(chunks)]
			i++
		}
		if n > len(data) {
			n = len(data)
		}
		w, err := ssys.Write(fd, data[:n])
		if err == ssys.EAGAIN {
			simrt.Sleep(time.Millisecond) // the victim's receive queue is full: wait for room
			if simrt.Failed() {
				return
			}
			continue
		}
		if err != nil || w <= 0 {
			return
		}
		data = data[w:]
		simrt.Yield(simrt.KHarness, "chunk")
	}
}

// healthyRoundTrip proves that the victim process still serves other sessions.
func healthyRoundTrip(pv, pa *simrt.Proc, cfg sessCfg, dir, tag string, victimIsServer bool) {
	confV, confA := cfg.config(dir, "hv"+tag), cfg.config(dir, "ha"+tag)
	var cli, srv *Session
	var e1, e2 error
	if victimIsServer {
		// victim process = server; we (running in the victim process' main goroutine) drive the client part from the adversary process
		done := make(chan struct{})
		simrt.GoProc(pa, "healthy-client", func() {
			defer close(done)
			cli, srv, e1, e2 = sessPair(pa, pv, confA, confV, "h"+tag)
		})
		simrt.Recv(done)
	} else {
		cli, srv, e1, e2 = sessPair(pv, pa, confV, confA, "h"+tag)
	}
	if e1 != nil || e2 != nil {
		simrt.Fail("C13.collateral", "after the hostile input a fresh session with the same process cannot be established: client=%v server=%v", e1, e2)
		return
	}
	ok := make(chan bool, 1)
	cp, sp := pv, pa
	if victimIsServer {
		cp, sp = pa, pv
	}
	simrt.GoProc(sp, "healthy-server", func() {
		st, err := srv.AcceptStream()
		if err != nil {
			ok <- false
			return
		}
		_ = st.SetReadDeadline(time.Now().Add(20 * time.Second))
		b, err := st.BufferReader().ReadBytes(5)
		ok <- err == nil && string(b) == "hello"
	})
	done := make(chan struct{})
	simrt.GoProc(cp, "healthy-client-io", func() {
		defer close(done)
		st, err := cli.OpenStream()
		if err != nil {
			return
		}
		_, _ = st.BufferWriter().WriteBytes([]byte("hello"))
		_ = st.Flush(false)
	})
	simrt.Recv(done)
	t := simrt.NewTimer(30 * time.Second)
	i, v, _ := simrt.Select(false, simrt.RecvCase(ok), simrt.RecvCase(t.C))
	t.Stop()
	if i != 0 || !v.Bool() {
		simrt.Fail("C13.collateral", "after the hostile input another session of the victim process no longer completes a round trip")
	}
	_ = cli.Close()
	_ = srv.Close()
}

func fuzzEstablished(p *fuzzPlan, pv, pa *simrt.Proc, dir string, input []byte) {
	victimIsServer := p.VictimRole == "server"
	type victim struct {
		s      *Session
		peer   *Session
		cb     *recListenCb
		inject int // descriptor (adversary side) whose writes arrive at the victim
	}
	mk := func(tag string) *victim {
		v := &victim{}
		confV, confA := p.Cfg.config(dir, "v"+tag), p.Cfg.config(dir, "a"+tag)
		var cli, srv *Session
		var e1, e2 error
		simrt.PointsOn(false)
		if victimIsServer {
			v.cb = &recListenCb{streams: map[uint32]*Stream{}}
			confV.listenCallback = v.cb
			done := make(chan struct{})
			simrt.GoProc(pa, "adv-client", func() {
				defer close(done)
				cli, srv, e1, e2 = sessPair(pa, pv, confA, confV, tag)
			})
			simrt.Recv(done)
			v.s, v.peer = srv, cli
		} else {
			confA.listenCallback = nopListenCb{}
			cli, srv, e1, e2 = sessPair(pv, pa, confV, confA, tag)
			v.s, v.peer = cli, srv
		}
		simrt.PointsOn(true)
		if e1 != nil || e2 != nil {
			simrt.Fail("harness.handshake", "fault-free handshake failed: %v %v", e1, e2)
			return nil
		}
		if victimIsServer && p.Listener {
			// as Listener.Run does for the sessions it owns
			v.s.listener = &Listener{sessions: newSessions(), logger: newLogger("listener", discardWriter{}), callback: nopListenCb{}}
			v.s.listener.sessions.add(v.s)
		}
		if !victimIsServer && p.Manager {
			v.s.manager = &SessionManager{config: &SessionManagerConfig{Config: confV, Network: "unix", Address: dir + "/nowhere.sock", SessionNum: 1, MaxStreamNum: 4}}
			pool := newStreamPool(4)
			pool.session.Store(v.s)
			v.s.manager.pools = []*streamPool{pool}
		}
		// the adversary writes into the peer session's descriptor: bytes arrive on the victim's control connection
		v.inject = v.peer.connFd
		return v
	}
	a := mk("A")
	if a == nil {
		return
	}
	var b *victim
	if p.WellFormed {
		b = mk("B")
		if b == nil {
			return
		}
	}
	done := make(chan struct{})
	simrt.GoProc(pa, "adversary", func() {
		defer close(done)
		sendChunked(a.inject, input, p.Chunks)
		if b != nil {
			sendChunked(b.inject, input, nil)
		}
	})
	simrt.Recv(done)
	simrt.Sleep(5 * time.Second)
	if simrt.Failed() {
		return
	}
	if b != nil {
		oa, ob := observeSession(a.s, a.cb), observeSession(b.s, b.cb)
		if oa != ob {
			simrt.Fail("C13.fragmentation", "the same well-formed byte string had different effects depending on how it was cut into reads (chunks %v): %s  VS (one piece): %s", p.Chunks, oa, ob)
			return
		}
	}
	healthyRoundTrip(pv, pa, p.Cfg, dir, "1", victimIsServer)
	for _, v := range []*victim{a, b} {
		if v != nil {
			_ = v.s.Close()
			_ = v.peer.Close()
		}
	}
	simrt.Sleep(3 * time.Second)
}

func fuzzHandshake(p *fuzzPlan, pv, pa *simrt.Proc, dir string, input []byte) {
	victimIsServer := p.VictimRole == "server"
	fdV, fdA := ssys.K.SocketPair(pv, pa, "unix", "@victim", "@adv")
	connV := simnet.WrapFd(fdV)
	conf := p.Cfg.config(dir, "v")
	conf.InitializeTimeout = 2 * time.Second
	start := simrt.Now()
	done := make(chan struct{})
	simrt.GoProc(pa, "adversary", func() {
		defer close(done)
		if !victimIsServer {
			// read (and ignore) whatever the client sends first, then answer with the hostile script
			buf := make([]byte, 8)
			_, _ = ssys.Read(fdA, buf)
		}
		sendChunked(fdA, input, p.Chunks)
		// then go silent: the victim must time out on its own
	})
	var sess *Session
	var err error
	if victimIsServer {
		conf.listenCallback = nopListenCb{}
		sess, err = Server(connV, conf)
	} else {
		sess, err = newSession(conf, connV, true)
	}
	elapsed := simrt.Now() - start
	if elapsed > conf.InitializeTimeout+5*time.Second {
		simrt.Fail("C13.handshake_hang", "handshake against a hostile peer returned only after %v (InitializeTimeout %v)", elapsed, conf.InitializeTimeout)
		return
	}
	if err == nil && sess != nil {
		// a hostile script may well be a valid handshake; the session must then be usable or closable
		_ = sess.Close()
	}
	if err != nil {
		_ = connV.Close()
	}
	_ = ssys.Close(fdA)
	simrt.Recv(done)
	simrt.Sleep(3 * time.Second)
	if simrt.Failed() {
		return
	}
	healthyRoundTrip(pv, pa, p.Cfg, dir, "1", victimIsServer)
	simrt.Sleep(2 * time.Second)
}

func (fuzzScenario) Post(plan interface{}, res *simrt.Result, rec *RunRecord) {
	rec.Nontrivial = res.Counters["fuzz.input_bytes"] > 0 && res.Switches > 50
}
