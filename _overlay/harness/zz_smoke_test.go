//go:build verif

package shmipc

// Scenario smoke: one session life cycle; used by the determinism self-test
// and as a sanity check of the simulated kernel. Not tied to a property.

import (
	"encoding/json"
	"time"

	"github.com/cloudwego/shmipc-go/simrt"
	"github.com/cloudwego/shmipc-go/simrt/ssys"
)

type smokePlan struct {
	Sim SimKnobs `json:"sim"`
	Cfg sessCfg  `json:"cfg"`
	N   int      `json:"n"`
}

type smokeScenario struct{}

func init() { scenarios["smoke"] = smokeScenario{} }

func (smokeScenario) Decode(raw json.RawMessage) (interface{}, error) {
	var p smokePlan
	err := json.Unmarshal(raw, &p)
	return &p, err
}
func (smokeScenario) Knobs(plan interface{}) SimKnobs { return plan.(*smokePlan).Sim }
func (smokeScenario) Gen(r *Rng, tier string, opts map[string]string) interface{} {
	return &smokePlan{Sim: genKnobs(r, false), Cfg: genSessCfg(r), N: 1 + r.Intn(20000)}
}
func (smokeScenario) Shrink(plan interface{}) []interface{} { return nil }
func (smokeScenario) Post(plan interface{}, res *simrt.Result, rec *RunRecord) {
	rec.Nontrivial = res.Switches > 20
}

func (smokeScenario) Run(s *simrt.Sim, plan interface{}, opts map[string]string) (*simrt.Proc, func()) {
	p := plan.(*smokePlan)
	ssys.NewKernel(s, p.Cfg.kernel())
	installGlobals(s)
	pc := newProc(s, "client", 2001)
	ps := newProc(s, "server", 2002)
	dir := newRunDir(s)
	main := func() {
		simrt.PointsOn(false)
		cli, srv, e1, e2 := sessPair(pc, ps, p.Cfg.config(dir, "c"), p.Cfg.config(dir, "s"), "0")
		simrt.PointsOn(true)
		if e1 != nil || e2 != nil {
			simrt.Fail("smoke.handshake", "handshake failed: client=%v server=%v", e1, e2)
			return
		}
		st, err := cli.OpenStream()
		if err != nil {
			simrt.Fail("smoke.open", "%v", err)
			return
		}
		msg := make([]byte, p.N)
		for i := range msg {
			msg[i] = byte(i * 7)
		}
		if _, err := st.BufferWriter().WriteBytes(msg); err != nil {
			simrt.Fail("smoke.write", "%v", err)
			return
		}
		if err := st.Flush(false); err != nil {
			simrt.Fail("smoke.flush", "%v", err)
			return
		}
		done := make(chan struct{})
		simrt.GoProc(ps, "server-reader", func() {
			defer close(done)
			ss, err := srv.AcceptStream()
			if err != nil {
				simrt.Fail("smoke.accept", "%v", err)
				return
			}
			_ = ss.SetReadDeadline(time.Now().Add(30 * time.Second))
			got, err := ss.BufferReader().ReadBytes(p.N)
			if err != nil {
				simrt.Fail("smoke.read", "%v", err)
				return
			}
			for i := range got {
				if got[i] != byte(i*7) {
					simrt.Fail("smoke.data", "byte %d differs", i)
					return
				}
			}
			ss.BufferReader().ReleasePreviousRead()
			_ = ss.Close()
		})
		simrt.Recv(done)
		if simrt.Failed() {
			return
		}
		_, err = st.BufferReader().ReadBytes(1)
		if err != ErrEndOfStream && err != ErrStreamClosed {
			simrt.Fail("smoke.eof", "client read after server close: %v", err)
			return
		}
		_ = st.Close()
		simrt.Sleep(3 * time.Second)
		if n := shmInUse(cli.bufferManager); n != 0 {
			simrt.Fail("smoke.leak", "%d buffers still in use", n)
			return
		}
		_ = cli.Close()
		_ = srv.Close()
		simrt.Sleep(3 * time.Second)
		for _, pr := range []*simrt.Proc{pc, ps} {
			c := ssys.K.CensusOf(pr)
			if len(c.SimFds) != 1 || len(c.RealFds) != 0 || c.Mappings != 0 { // only the epoll fd remains
				simrt.Fail("smoke.census", "process %s still holds %+v", pr.Name, c)
				return
			}
		}
	}
	return pc, main
}
