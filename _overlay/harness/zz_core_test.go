//go:build verif

//go:debug asynctimerchan=0

package shmipc

// Worker side of the deterministic simulation harness (DESIGN.md §3, §8).
// One test binary, one scenario per invocation; modes: search, replay, minimize.

import (
	"bufio"
	"encoding/json"
	"fmt"
	"io"
	"os"
	"runtime"
	"runtime/debug"
	"sort"
	"strconv"
	"strings"
	"testing"
	"testing/synctest"
	"time"

	"github.com/cloudwego/shmipc-go/simrt"
	"github.com/cloudwego/shmipc-go/simrt/simnet"
)

// Rng is the generator stream (programs and swarm configuration); the schedule
// and fault decisions use the run's tape instead.
type Rng struct{ s uint64 }

func (r *Rng) Next() uint64 {
	r.s += 0x9e3779b97f4a7c15
	z := r.s
	z = (z ^ (z >> 30)) * 0xbf58476d1ce4e5b9
	z = (z ^ (z >> 27)) * 0x94d049bb133111eb
	return z ^ (z >> 31)
}
func (r *Rng) Intn(n int) int {
	if n <= 0 {
		return 0
	}
	return int(r.Next() % uint64(n))
}
func (r *Rng) Chance(num, den int) bool { return r.Intn(den) < num }
func (r *Rng) Pick(xs ...int) int       { return xs[r.Intn(len(xs))] }

// SimKnobs is the scheduler part of a plan (JSON, explicit in replay files).
type SimKnobs struct {
	Strategy       int   `json:"strategy"`
	SwitchPermille int   `json:"switch_permille"`
	PointMean      int   `json:"point_mean"`
	PCTDepth       int   `json:"pct_depth,omitempty"`
	PCTSteps       int   `json:"pct_steps,omitempty"`
	DelayKind      int   `json:"delay_kind,omitempty"`
	DelayMax       int   `json:"delay_max,omitempty"`
	MaxSteps       int64 `json:"max_steps"`
	HorizonSec     int   `json:"horizon_sec,omitempty"`
	ChanCap        int   `json:"chan_cap,omitempty"` // shrink the library's large hard-coded channel capacities to this
}

func genKnobs(r *Rng, micro bool) SimKnobs {
	k := SimKnobs{MaxSteps: 60000}
	switch r.Intn(10) {
	case 0, 1, 2, 3, 4:
		k.Strategy = simrt.StratRandom
		k.SwitchPermille = r.Pick(500, 300, 150, 80, 30, 10, 3)
	case 5, 6, 7:
		k.Strategy = simrt.StratPCT
		k.PCTDepth = 1 + r.Intn(5)
		if micro {
			k.PCTSteps = r.Pick(100, 300, 800)
		} else {
			k.PCTSteps = r.Pick(500, 2000, 8000)
		}
	case 8:
		k.Strategy = simrt.StratRandom
		k.SwitchPermille = r.Pick(100, 30)
		k.DelayKind = int(r.Pick(int(simrt.KCAS), int(simrt.KAtomicStore), int(simrt.KSyscall), int(simrt.KSelect), int(simrt.KLock), int(simrt.KAtomicLoad)))
		k.DelayMax = r.Pick(5, 20, 60)
	default:
		k.Strategy = simrt.StratRunToBlock
	}
	if micro {
		k.PointMean = r.Pick(0, 1, 2, 4, 8)
	} else {
		k.PointMean = r.Pick(0, 0, 5, 20, 60, 200)
		k.MaxSteps = 400000
	}
	return k
}

func (k SimKnobs) config(seed uint64, tape []uint32, trace bool) simrt.Config {
	c := simrt.Config{Seed: seed, Tape: tape, Strategy: k.Strategy, SwitchPermille: k.SwitchPermille, PointMean: k.PointMean,
		PCTDepth: k.PCTDepth, PCTSteps: k.PCTSteps, DelayKind: simrt.SiteKind(k.DelayKind), DelayMax: k.DelayMax, MaxSteps: k.MaxSteps, Trace: trace, ChanCap: k.ChanCap}
	if k.HorizonSec > 0 {
		c.Horizon = time.Duration(k.HorizonSec) * time.Second
	}
	return c
}

// scenario is one simulated system + workload generator + oracles.
type scenario interface {
	// Gen draws a plan (swarm configuration + program) from the generator stream.
	Gen(r *Rng, tier string, opts map[string]string) interface{}
	// Decode parses a plan from a replay file.
	Decode(raw json.RawMessage) (interface{}, error)
	// Knobs returns the scheduler knobs of a plan.
	Knobs(plan interface{}) SimKnobs
	// Run builds the system inside the bubble and returns the main function and its process.
	Run(s *simrt.Sim, plan interface{}, opts map[string]string) (proc *simrt.Proc, main func())
	// Post is called after the run (outside the scheduler, still in the bubble's parent) to fill scenario metrics.
	Post(plan interface{}, res *simrt.Result, rec *RunRecord)
	// Shrink proposes simpler plans.
	Shrink(plan interface{}) []interface{}
}

// sweeper is implemented by scenarios whose thorough tier enumerates a fault over every point of a base run.
type sweeper interface {
	// Base returns the fault-free version of a plan; Sweep the variants of it given the base run's record.
	Base(plan interface{}) interface{}
	Sweep(plan interface{}, base *RunRecord) []interface{}
}

var scenarios = map[string]scenario{}

// RunRecord is one line of worker output.
type RunRecord struct {
	Run        int64             `json:"run"`
	Seed       uint64            `json:"seed"`
	Scenario   string            `json:"scenario"`
	Steps      int64             `json:"steps"`
	Switches   int64             `json:"switches"`
	Preempts   int64             `json:"preempts"`
	VTimeNs    int64             `json:"vtime_ns"`
	Digest     string            `json:"digest"`
	Sig        string            `json:"sig"`
	Result     string            `json:"result"` // ok | violation | budget
	Failures   []simrt.Failure   `json:"failures,omitempty"`
	Counters   map[string]int64  `json:"counters,omitempty"`
	Kinds      map[string]int64  `json:"kinds,omitempty"`
	Nontrivial bool              `json:"nontrivial"`
	Leaked     int               `json:"leaked,omitempty"`
	Blocked    []string          `json:"blocked,omitempty"`
	Plan       interface{}       `json:"plan,omitempty"`
	Tape       []uint32          `json:"tape,omitempty"`
	Trace      []string          `json:"trace,omitempty"`
	WallUs     int64             `json:"wall_us"`
	Other      []simrt.Failure   `json:"other_property,omitempty"`
	Variant    bool              `json:"variant,omitempty"` // a fault-sweep variant of the base run with the same run index
}

// ReplayFile is the on-disk format of a failing (or sample) run.
type ReplayFile struct {
	Format     int             `json:"format"`
	Property   string          `json:"property"`
	Scenario   string          `json:"scenario"`
	Tier       string          `json:"tier"`
	MasterSeed uint64          `json:"master_seed"`
	Run        int64           `json:"run"`
	RunSeed    uint64          `json:"run_seed"`
	Tree       string          `json:"tree,omitempty"`
	Opts       map[string]string `json:"opts,omitempty"`
	Plan       json.RawMessage `json:"plan"`
	Tape       []uint32        `json:"tape"`
	Violation  *simrt.Failure  `json:"violation,omitempty"`
	Digest     string          `json:"digest,omitempty"`
	Minimised  bool            `json:"minimised"`
	Trace      []string        `json:"trace,omitempty"`
}

func runSeedOf(master uint64, run int64) uint64 {
	r := Rng{s: master ^ uint64(run)*0xd1342543de82ef95}
	return r.Next()
}

var watchdogCh = make(chan string, 1)

func startWatchdog() {
	go func() {
		cur := ""
		var since time.Time
		for {
			select {
			case x := <-watchdogCh:
				cur = x
				since = time.Now()
			case <-time.After(2 * time.Second):
				if cur != "" && time.Since(since) > 120*time.Second {
					fmt.Fprintf(os.Stderr, "WATCHDOG: run %s exceeded 120s wall clock\n", cur)
					buf := make([]byte, 1<<20)
					n := runtime.Stack(buf, true)
					os.Stderr.Write(buf[:n])
					os.Exit(3)
				}
			}
		}
	}()
}

// execRun runs one plan under one tape (nil tape = search from seed).
func execRun(t *testing.T, name string, scn scenario, plan interface{}, seed uint64, tape []uint32, trace bool, opts map[string]string) (rec *RunRecord) {
	start := time.Now()
	select {
	case watchdogCh <- fmt.Sprintf("%s seed=%d", name, seed):
	default:
	}
	rec = &RunRecord{Seed: seed, Scenario: name}
	var res *simrt.Result
	func() {
		defer func() {
			if r := recover(); r != nil {
				msg := fmt.Sprint(r)
				if strings.Contains(msg, "deadlock: main bubble goroutine has exited") {
					rec.Leaked = -1
					return
				}
				panic(r)
			}
		}()
		synctest.Test(t, func(t *testing.T) {
			knobs := scn.Knobs(plan)
			sim := simrt.NewSim(knobs.config(seed, tape, trace))
			proc, main := scn.Run(sim, plan, opts)
			res = sim.Run(proc, main)
		})
	}()
	simnet.ResetKeepAlive()
	if res == nil {
		rec.Result = "harness-error"
		return rec
	}
	rec.Steps, rec.Switches, rec.Preempts, rec.VTimeNs = res.Steps, res.Switches, res.Preempts, int64(res.VTime)
	rec.Digest = strconv.FormatUint(res.Digest, 16)
	rec.Sig = strconv.FormatUint(res.Sig, 16)
	rec.Counters, rec.Kinds = res.Counters, res.Kinds
	rec.Blocked = res.Blocked
	if rec.Leaked == 0 {
		rec.Leaked = res.Leaked
	}
	rec.Tape = res.Tape
	rec.Trace = res.Trace
	// a check only reports violations of its own property (DESIGN §3.3 attribution)
	own := opts["property"]
	for _, f := range res.Failures {
		if own == "" || strings.HasPrefix(f.Rule, own+".") || f.Rule == "panic" || strings.HasPrefix(f.Rule, "harness.") {
			rec.Failures = append(rec.Failures, f)
		} else {
			rec.Other = append(rec.Other, f)
		}
	}
	switch {
	case len(rec.Failures) > 0:
		rec.Result = "violation"
	case res.Budget:
		rec.Result = "budget"
	default:
		rec.Result = "ok"
	}
	scn.Post(plan, res, rec)
	rec.WallUs = time.Since(start).Microseconds()
	return rec
}

func envInt(name string, def int64) int64 {
	if v := os.Getenv(name); v != "" {
		if n, err := strconv.ParseInt(v, 10, 64); err == nil {
			return n
		}
	}
	return def
}

func envOpts() map[string]string {
	opts := map[string]string{}
	if v := os.Getenv("VSIM_OPTS"); v != "" {
		_ = json.Unmarshal([]byte(v), &opts)
	}
	return opts
}

func TestSim(t *testing.T) {
	mode := os.Getenv("VSIM_MODE")
	if mode == "" {
		t.Skip("VSIM_MODE not set")
	}
	debug.SetGCPercent(400)
	level = levelNoPrint
	internalLogger.out = io.Discard
	protocolLogger.out = io.Discard
	startWatchdog()
	opts := envOpts()
	switch mode {
	case "search":
		simSearch(t, opts)
	case "replay":
		simReplay(t, opts)
	case "minimize":
		simMinimize(t, opts)
	default:
		t.Fatalf("unknown VSIM_MODE %q", mode)
	}
}

func simSearch(t *testing.T, opts map[string]string) {
	name := os.Getenv("VSIM_SCENARIO")
	scn := scenarios[name]
	if scn == nil {
		t.Fatalf("unknown scenario %q", name)
	}
	tier := os.Getenv("VSIM_TIER")
	master := uint64(envInt("VSIM_SEED", 1))
	start := envInt("VSIM_START", 0)
	stride := envInt("VSIM_STRIDE", 1)
	count := envInt("VSIM_COUNT", 100)
	deadline := time.Now().Add(time.Duration(envInt("VSIM_BUDGET_MS", 30000)) * time.Millisecond)
	maxViol := int(envInt("VSIM_MAX_VIOLATIONS", 3))
	out := os.Stdout
	if p := os.Getenv("VSIM_OUT"); p != "" {
		f, err := os.Create(p)
		if err != nil {
			t.Fatal(err)
		}
		defer f.Close()
		out = f
	}
	w := bufio.NewWriterSize(out, 1<<20)
	defer w.Flush()
	if p := os.Getenv("VSIM_OUT"); p != "" {
		// library functions entered by the runs of this worker (merged by the driver into the evidence)
		defer func() {
			var hit []string
			for i, h := range simrt.FnHit {
				if h {
					hit = append(hit, simrt.FnTable[i])
				}
			}
			b, _ := json.Marshal(map[string]interface{}{"total": simrt.FnTable, "hit": hit})
			_ = os.WriteFile(p+".fn", b, 0o644)
		}()
	}
	enc := json.NewEncoder(w)
	viol := 0
	samples := 0
	for i := int64(0); i < count; i++ {
		if time.Now().After(deadline) {
			break
		}
		run := start + i*stride
		seed := runSeedOf(master, run)
		gr := &Rng{s: seed ^ 0x5bd1e995}
		plan := scn.Gen(gr, tier, opts)
		if sw, ok := scn.(sweeper); ok && tier == "thorough" && opts["sweep"] == "1" {
			// fault enumeration: run the fault-free base, then the same plan and seed with the fault at every point
			basePlan := sw.Base(plan)
			base := execRun(t, name, scn, basePlan, seed, nil, false, opts)
			base.Run = run
			base.Tape = nil
			_ = enc.Encode(base)
			if base.Result == "ok" {
				for _, v := range sw.Sweep(plan, base) {
					if time.Now().After(deadline) {
						break
					}
					vr := execRun(t, name, scn, v, seed, nil, false, opts)
					vr.Run = run
					vr.Variant = true
					if vr.Result == "violation" {
						viol++
						vr.Plan = v
					} else {
						if samples < 2 && vr.Nontrivial {
							samples++
							vr.Plan = v
							if len(vr.Tape) > 64 {
								vr.Tape = vr.Tape[:64]
							}
						} else {
							vr.Tape = nil
						}
					}
					vr.Trace = nil
					if err := enc.Encode(vr); err != nil {
						t.Fatal(err)
					}
				}
			}
			if viol >= maxViol {
				break
			}
			continue
		}
		rec := execRun(t, name, scn, plan, seed, nil, os.Getenv("VSIM_TRACE") != "", opts)
		rec.Run = run
		if tf := os.Getenv("VSIM_TRACE_FILE"); tf != "" {
			_ = os.WriteFile(tf, []byte(strings.Join(rec.Trace, "\n")), 0o644)
		}
		if rec.Result == "violation" {
			viol++
			rec.Plan = plan
		} else {
			if samples < 2 && rec.Nontrivial {
				samples++
				rec.Plan = plan
				if len(rec.Tape) > 64 {
					rec.Tape = rec.Tape[:64]
				}
			} else {
				rec.Tape = nil
			}
		}
		rec.Trace = nil
		if err := enc.Encode(rec); err != nil {
			t.Fatal(err)
		}
		if viol >= maxViol {
			break
		}
	}
}

func loadReplay(t *testing.T, path string) (*ReplayFile, scenario, interface{}) {
	b, err := os.ReadFile(path)
	if err != nil {
		t.Fatal(err)
	}
	var rf ReplayFile
	if err := json.Unmarshal(b, &rf); err != nil {
		t.Fatal(err)
	}
	scn := scenarios[rf.Scenario]
	if scn == nil {
		t.Fatalf("unknown scenario %q", rf.Scenario)
	}
	plan, err := scn.Decode(rf.Plan)
	if err != nil {
		t.Fatal(err)
	}
	return &rf, scn, plan
}

func mergedOpts(rf *ReplayFile, opts map[string]string) map[string]string {
	m := map[string]string{}
	for k, v := range rf.Opts {
		m[k] = v
	}
	for k, v := range opts {
		m[k] = v
	}
	return m
}

func simReplay(t *testing.T, opts map[string]string) {
	rf, scn, plan := loadReplay(t, os.Getenv("VSIM_REPLAY"))
	opts = mergedOpts(rf, opts)
	tape := rf.Tape
	if tape == nil {
		tape = []uint32{}
	}
	rec := execRun(t, rf.Scenario, scn, plan, rf.RunSeed, tape, os.Getenv("VSIM_TRACE") != "", opts)
	rec.Run = rf.Run
	rec.Tape = nil
	out := os.Stdout
	if p := os.Getenv("VSIM_OUT"); p != "" {
		f, err := os.Create(p)
		if err != nil {
			t.Fatal(err)
		}
		defer f.Close()
		out = f
	}
	_ = json.NewEncoder(out).Encode(rec)
}

func sameViolation(rec *RunRecord, rule string) bool {
	if rec.Result != "violation" || len(rec.Failures) == 0 {
		return false
	}
	return rec.Failures[0].Rule == rule
}

// simMinimize shrinks the plan (re-searching a few schedules per candidate),
// then the tape (delta debugging towards 0 = "no preemption, no fault").
func simMinimize(t *testing.T, opts map[string]string) {
	rf, scn, plan := loadReplay(t, os.Getenv("VSIM_REPLAY"))
	opts = mergedOpts(rf, opts)
	if rf.Violation == nil {
		t.Fatal("replay file has no violation")
	}
	rule := rf.Violation.Rule
	deadline := time.Now().Add(time.Duration(envInt("VSIM_BUDGET_MS", 60000)) * time.Millisecond)
	curPlan, curTape, curSeed := plan, rf.Tape, rf.RunSeed
	base := execRun(t, rf.Scenario, scn, curPlan, curSeed, curTape, false, opts)
	if !sameViolation(base, rule) {
		fmt.Fprintf(os.Stderr, "MINIMIZE: original does not reproduce (got %s %v)\n", base.Result, base.Failures)
		os.Exit(4)
	}
	curTape = base.Tape
	tries := 0
	// 1. program level
	improved := true
	for improved && time.Now().Before(deadline) {
		improved = false
		for _, cand := range scn.Shrink(curPlan) {
			if time.Now().After(deadline) {
				break
			}
			found := false
			// same tape first, then fresh schedules
			for k := 0; k < 24 && !found; k++ {
				tries++
				var rec *RunRecord
				if k == 0 {
					rec = execRun(t, rf.Scenario, scn, cand, curSeed, curTape, false, opts)
				} else {
					rec = execRun(t, rf.Scenario, scn, cand, curSeed+uint64(k)*7919, nil, false, opts)
				}
				if sameViolation(rec, rule) {
					curPlan, curTape = cand, rec.Tape
					if k > 0 {
						curSeed = curSeed + uint64(k)*7919
					}
					found = true
				}
			}
			if found {
				improved = true
				break
			}
		}
	}
	// 2. tape level: zero chunks
	tape := append([]uint32(nil), curTape...)
	nz := func() int {
		c := 0
		for _, v := range tape {
			if v != 0 {
				c++
			}
		}
		return c
	}
	chunk := len(tape) / 2
	for chunk >= 1 && time.Now().Before(deadline) {
		progress := false
		for off := 0; off < len(tape) && time.Now().Before(deadline); off += chunk {
			end := off + chunk
			if end > len(tape) {
				end = len(tape)
			}
			allZero := true
			for _, v := range tape[off:end] {
				if v != 0 {
					allZero = false
				}
			}
			if allZero {
				continue
			}
			cand := append([]uint32(nil), tape...)
			for i := off; i < end; i++ {
				cand[i] = 0
			}
			tries++
			rec := execRun(t, rf.Scenario, scn, curPlan, curSeed, cand, false, opts)
			if sameViolation(rec, rule) {
				tape = rec.Tape
				progress = true
			}
		}
		if !progress || chunk == 1 {
			if chunk == 1 && !progress {
				break
			}
		}
		chunk /= 2
	}
	// trim trailing zeros
	for len(tape) > 0 && tape[len(tape)-1] == 0 {
		tape = tape[:len(tape)-1]
	}
	final := execRun(t, rf.Scenario, scn, curPlan, curSeed, tape, true, opts)
	if !sameViolation(final, rule) {
		// trimming changed behaviour (should not: exhausted tape reads 0); fall back
		final = execRun(t, rf.Scenario, scn, curPlan, curSeed, curTape, true, opts)
		tape = curTape
	}
	pj, _ := json.Marshal(curPlan)
	outRF := &ReplayFile{Format: 1, Property: rf.Property, Scenario: rf.Scenario, Tier: rf.Tier, MasterSeed: rf.MasterSeed, Run: rf.Run,
		RunSeed: curSeed, Tree: rf.Tree, Opts: rf.Opts, Plan: pj, Tape: tape, Minimised: true, Digest: final.Digest}
	if len(final.Failures) > 0 {
		outRF.Violation = &final.Failures[0]
	}
	tr := final.Trace
	if len(tr) > 400 {
		tr = tr[len(tr)-400:]
	}
	outRF.Trace = tr
	b, _ := json.MarshalIndent(outRF, "", " ")
	if err := os.WriteFile(os.Getenv("VSIM_OUT"), b, 0o644); err != nil {
		t.Fatal(err)
	}
	fmt.Fprintf(os.Stderr, "MINIMIZE: tries=%d nonzero_tape=%d tape_len=%d\n", tries, nz(), len(tape))
}

// helpers shared by scenarios -------------------------------------------------

func sortedInts(m map[int]bool) []int {
	out := make([]int, 0, len(m))
	for k := range m {
		out = append(out, k)
	}
	sort.Ints(out)
	return out
}
