//go:build verif

package shmipc

// Scenario sess: one real client/server session pair on the simulated kernel,
// 1-6 multiplexed streams with writer / reader / callback threads on both ends,
// neighbour threads that exhaust and scribble shared memory, chaos thread that
// stalls processes. Oracles for C05-C11 and C20 are switched by the property
// being checked (DESIGN.md §3.3 attribution).

import (
	"bytes"
	"encoding/binary"
	"encoding/json"
	"fmt"
	"os"
	"strings"
	"time"

	"github.com/cloudwego/shmipc-go/simrt"
	"github.com/cloudwego/shmipc-go/simrt/simnet"
	"github.com/cloudwego/shmipc-go/simrt/ssys"
)

type piece struct {
	K string `json:"k"` // wb | rsv | byte | str
	N int    `json:"n"`
}

type wOp struct {
	K      string  `json:"k"` // msg | write | close | sleep | wdeadline
	Pieces []piece `json:"p,omitempty"`
	N      int     `json:"n,omitempty"`
}

type rOp struct {
	K string `json:"k"` // rb | peek | discard | rbyte | rstr | read | release | len | close | sleep | deadline | reuse
	N int    `json:"n,omitempty"`
}

type dirPlan struct {
	W []wOp `json:"w,omitempty"`
	R []rOp `json:"r,omitempty"`
}

type streamPlan struct {
	C2S      dirPlan `json:"c2s"`
	S2C      dirPlan `json:"s2c"`
	Callback bool    `json:"callback,omitempty"` // server end receives C2S through OnData
	CbOps    []rOp   `json:"cb_ops,omitempty"`   // all | part n | need n | sleep ms | close  (cycled per invocation)
}

type nbOp struct {
	K    string `json:"k"` // hog | release | scribble | sleep | stall
	N    int    `json:"n,omitempty"`
	Side int    `json:"side,omitempty"` // 0 client, 1 server
}

type sessPlan struct {
	Sim      SimKnobs     `json:"sim"`
	Cfg      sessCfg      `json:"cfg"`
	Streams  []streamPlan `json:"streams"`
	Neighbor []nbOp       `json:"neighbor,omitempty"`
	Chaos    []nbOp       `json:"chaos,omitempty"`
	Crash    *crashPlan   `json:"crash,omitempty"`  // C14: peer death / connection loss / Session.Close at an exact scheduling step
	Accept   bool         `json:"accept,omitempty"` // server obtains streams through AcceptStream instead of the listen callback
	Faulty   bool         `json:"faulty,omitempty"` // fault-injecting batch (oracle relaxations for failed flushes apply)
}

type crashPlan struct {
	Kind   string `json:"kind"`    // kill_client | kill_server | sever | sever_rst | close_client | close_server | close_both
	AtStep int64  `json:"at_step"` // scheduling steps after the sessions were established (negative: absolute step, during the handshake)
	Twice  bool   `json:"twice,omitempty"`
	Opener bool   `json:"opener,omitempty"` // a client thread keeps opening (and closing) streams while the fault strikes
	Flood  int    `json:"flood,omitempty"`  // the server application has stopped accepting; the client opens this many streams (accept backlog: 1024) and the fault strikes once they were all sent
}

type sessScenario struct{}

func init() { scenarios["sess"] = sessScenario{} }

func (sessScenario) Decode(raw json.RawMessage) (interface{}, error) {
	var p sessPlan
	err := json.Unmarshal(raw, &p)
	return &p, err
}

func (sessScenario) Knobs(plan interface{}) SimKnobs { return plan.(*sessPlan).Sim }

// sizes anchored at slice capacities
func anchoredSize(r *Rng, cfg sessCfg) int {
	c := int(cfg.Slices[r.Intn(len(cfg.Slices))][0])
	largest := 0
	for _, s := range cfg.Slices {
		if int(s[0]) > largest {
			largest = int(s[0])
		}
	}
	switch r.Intn(12) {
	case 0:
		return 1
	case 1:
		return c - 1
	case 2:
		return c
	case 3:
		return c + 1
	case 4:
		return 2*c + 3
	case 5:
		return largest + 1 + r.Intn(50)
	case 6:
		return 1 + r.Intn(16)
	case 7:
		return 3*c - 1
	case 8:
		return c / 2
	default:
		return 1 + r.Intn(2*c+2)
	}
}

func genMsg(r *Rng, cfg sessCfg, budget *int) wOp {
	if r.Chance(1, 6) {
		n := anchoredSize(r, cfg)
		if n > *budget {
			n = 1 + *budget/2
		}
		if n < 1 {
			n = 1
		}
		*budget -= n
		return wOp{K: "write", N: n}
	}
	op := wOp{K: "msg"}
	np := 1 + r.Intn(4)
	for i := 0; i < np; i++ {
		n := anchoredSize(r, cfg)
		if n > *budget {
			n = 1 + *budget/2
		}
		if n <= 0 {
			n = 1
		}
		*budget -= n
		k := "wb"
		switch r.Intn(7) {
		case 0:
			k = "rsv"
		case 1:
			k = "byte"
			*budget += n - 1
			n = 1
		case 2:
			k = "str"
		}
		op.Pieces = append(op.Pieces, piece{K: k, N: n})
	}
	return op
}

func wopBytes(op wOp) int {
	if op.K == "write" {
		return op.N
	}
	t := 0
	for _, p := range op.Pieces {
		t += p.N
	}
	return t
}

func genReaderOps(r *Rng, cfg sessCfg, total int, withClose bool) []rOp {
	var ops []rOp
	left := total
	if r.Chance(1, 3) {
		ops = append(ops, rOp{K: "deadline", N: r.Pick(50, 500, 3000, 20000)})
	}
	for left > 0 && len(ops) < 40 {
		n := anchoredSize(r, cfg)
		if n > left {
			n = left
		}
		switch r.Intn(14) {
		case 0, 1, 2, 3, 4:
			ops = append(ops, rOp{K: "rb", N: n})
			left -= n
		case 5:
			ops = append(ops, rOp{K: "peek", N: n})
		case 6:
			ops = append(ops, rOp{K: "discard", N: n})
			left -= n
		case 7:
			ops = append(ops, rOp{K: "rbyte"})
			left--
		case 8:
			ops = append(ops, rOp{K: "rstr", N: n})
			left -= n
		case 9:
			ops = append(ops, rOp{K: "read", N: n})
			left -= n // read may return less; the tail loop below picks up the rest
		case 10, 11:
			ops = append(ops, rOp{K: "release"})
		case 12:
			ops = append(ops, rOp{K: "len"})
		default:
			ops = append(ops, rOp{K: "sleep", N: r.Pick(1, 20, 300)})
		}
	}
	if r.Chance(2, 3) {
		ops = append(ops, rOp{K: "drain"}) // read until error / EOF
	}
	if r.Chance(3, 4) {
		ops = append(ops, rOp{K: "release"})
	}
	if withClose {
		ops = append(ops, rOp{K: "close"})
	}
	return ops
}

func (sessScenario) Gen(r *Rng, tier string, opts map[string]string) interface{} {
	p := &sessPlan{Sim: genKnobs(r, false), Cfg: genSessCfg(r)}
	prop := opts["property"]
	p.Sim.HorizonSec = 600
	ns := 1
	switch prop {
	case "C06", "C08":
		ns = 1 + r.Intn(2)
	case "C05":
		ns = 1 + r.Intn(4)
	default:
		ns = 1 + r.Intn(5)
	}
	p.Accept = r.Chance(1, 3)
	p.Faulty = r.Chance(1, 2)
	if !p.Faulty {
		p.Cfg.Spurious = 0
	}
	if prop == "C14" && (r.Chance(1, 40) || opts["flood"] != "") {
		// accept backlog overflow: Session.Close from a foreign goroutine while the event loop is parked on the full
		// accept channel (it must be released by the shutdown, run the teardown and release everything)
		p.Accept = true
		p.Faulty = true
		p.Cfg.QueueCap = 8192
		p.Cfg.Spurious = 0
		p.Sim.PointMean = 0
		p.Sim.MaxSteps = 3000000
		p.Streams = []streamPlan{{}}
		p.Crash = &crashPlan{Kind: []string{"close_server", "close_both"}[r.Intn(2)], AtStep: int64(r.Intn(300)), Twice: r.Chance(1, 3), Flood: 1024 + r.Pick(1, 2, 40)}
		return p
	}
	if (prop == "C11" || prop == "C07") && r.Chance(1, 15) {
		// the connection write timeout really fires: messages that do not fit any slice class go through the socket,
		// the socket buffer holds a few bytes and the peer's process is off the CPU for much longer than
		// ConnectionWriteTimeout. Flush must come back with an error, not stay blocked (C11); what the send loop still
		// holds of an abandoned message must not be touched by the messages that follow on this or another stream (C07:
		// 2-3 streams whose writers time out in turn and carry on).
		p.Cfg.Slices = [][2]uint32{{64, 50}, {256, 50}}
		p.Cfg.SockBuf = r.Pick(16, 64)
		p.Cfg.WriteTimeoutMs = r.Pick(50, 200)
		p.Cfg.Spurious = 0
		p.Faulty = true
		p.Sim.PointMean = 0
		nst := 1
		if prop == "C07" {
			nst = 2 + r.Intn(2)
		}
		for i := 0; i < nst; i++ {
			var sp streamPlan
			total := 0
			for j := 0; j < 2+r.Intn(3); j++ {
				n := 300 + r.Intn(600)
				sp.C2S.W = append(sp.C2S.W, wOp{K: "msg", Pieces: []piece{{K: "rsv", N: n}}})
				total += n
			}
			sp.C2S.R = []rOp{{K: "deadline", N: 30000}, {K: "rb", N: total}, {K: "release"}}
			p.Streams = append(p.Streams, sp)
		}
		p.Chaos = []nbOp{{K: "sleep", N: r.Pick(0, 1)}, {K: "stall", N: r.Pick(1000, 3000), Side: 1}}
		return p
	}
	if prop == "C11" && r.Chance(1, 5) {
		// a deadline that expires at the very instant the awaited data arrives (both timers are due at the same
		// virtual time), followed by reads with later deadlines: those must not inherit a stale expiry
		d := r.Pick(15, 200, 1000)
		n1, n2 := 1+r.Intn(300), 1+r.Intn(300)
		var sp streamPlan
		// the awaited data arrives at d, the reader's deadline is 1.5 d, and the reader's process is taken off the
		// CPU from about d for 3 d: when the stall lands after the reader was woken, the deadline expires while the
		// read is completing successfully
		sp.C2S.W = []wOp{{K: "msg", Pieces: []piece{{K: "wb", N: n1}}}, {K: "sleep", N: d}, {K: "msg", Pieces: []piece{{K: "wb", N: n2}}}, {K: "sleep", N: 6 * d}, {K: "msg", Pieces: []piece{{K: "wb", N: 5}}}}
		sp.C2S.R = []rOp{{K: "rb", N: n1}, {K: "deadline", N: d + d/2}, {K: "rb", N: n2}, {K: "release"}, {K: "deadline", N: 10 * d}, {K: "rb", N: 5}, {K: "release"}}
		p.Streams = append(p.Streams, sp)
		p.Chaos = []nbOp{{K: "sleep", N: d}, {K: "stall", N: 3 * d, Side: 1}}
		p.Accept = r.Chance(1, 2)
		p.Faulty = false
		p.Cfg.Spurious = 0
		p.Sim.PointMean = 0
		return p
	}
	if prop == "C08" && r.Chance(1, 4) {
		// reads and peeks that end exactly at slice ends, then consumption that makes the library let go of the
		// slices behind them, with a scribbler reusing whatever is freed - nothing is released until the end
		p.Cfg.Slices = [][2]uint32{{uint32(r.Pick(64, 256, 1024)), 100}}
		c := int(p.Cfg.Slices[0][0])
		k := 3 + r.Intn(3)
		total := k*c + r.Intn(c)
		var sp streamPlan
		sp.C2S.W = []wOp{{K: "msg", Pieces: []piece{{K: "wb", N: total}}}}
		left := total
		add := func(kind string, n int) {
			if n < 1 {
				n = 1
			}
			if kind != "peek" {
				if n > left {
					n = left
				}
				left -= n
			}
			if n > 0 {
				sp.C2S.R = append(sp.C2S.R, rOp{K: kind, N: n})
			}
		}
		for left > c {
			switch r.Intn(6) {
			case 0:
				add("rb", c)
			case 1:
				add("rb", c-r.Intn(3))
			case 2:
				add("peek", 1+r.Intn(c))
			case 3:
				add("discard", c-r.Intn(2))
			case 4:
				add("rb", 1+r.Intn(2*c))
			default:
				add("rbyte", 1)
			}
			if r.Chance(1, 3) {
				sp.C2S.R = append(sp.C2S.R, rOp{K: "sleep", N: r.Pick(1, 20)})
			}
		}
		sp.C2S.R = append(sp.C2S.R, rOp{K: "sleep", N: 50}, rOp{K: "release"})
		p.Streams = []streamPlan{sp}
		p.Neighbor = []nbOp{{K: "sleep", N: 1}, {K: "scribble", N: 3, Side: 1}, {K: "sleep", N: 5}, {K: "scribble", N: 3, Side: 1}, {K: "sleep", N: 20}, {K: "scribble", N: 3, Side: 1}}
		return p
	}
	if prop == "C05" && r.Chance(1, 12) {
		// sender crowd: several writers whose messages do not fit any slice class (socket fallback, through the send
		// loop) next to writers of small shared-memory messages (polling events), a socket buffer of a few bytes and a
		// send channel of one slot: wake-ups are produced while the connection is busy and its channel is full
		big := 300 + r.Intn(200)
		p.Cfg.Slices = [][2]uint32{{64, 50}, {256, 50}}
		p.Cfg.QueueCap = uint32(r.Pick(2, 8, 64))
		p.Cfg.SockBuf = r.Pick(16, 64, 512)
		p.Cfg.Spurious = 0
		p.Faulty = false
		p.Accept = false
		p.Sim.ChanCap = 1
		nbig, nsmall := 2+r.Intn(2), 1+r.Intn(2)
		for i := 0; i < nbig+nsmall; i++ {
			var sp streamPlan
			total := 0
			for j := 0; j < 3+r.Intn(4); j++ {
				if i < nbig {
					sp.C2S.W = append(sp.C2S.W, wOp{K: "msg", Pieces: []piece{{K: "rsv", N: big}}})
					total += big
				} else {
					n := 1 + r.Intn(40)
					sp.C2S.W = append(sp.C2S.W, wOp{K: "msg", Pieces: []piece{{K: "wb", N: n}}})
					total += n
				}
			}
			sp.C2S.R = []rOp{{K: "deadline", N: 30000}, {K: "rb", N: total}, {K: "release"}}
			p.Streams = append(p.Streams, sp)
		}
		return p
	}
	burst := prop == "C05" && r.Chance(1, 20)
	if burst {
		// thousands of queue elements produced while the consumer is off the CPU, drained in one go
		ns = 1
		p.Cfg.QueueCap = 8192
		p.Cfg.Slices = [][2]uint32{{64, 100}}
		p.Sim.PointMean = 0
		p.Sim.MaxSteps = 1500000
	}
	for i := 0; i < ns; i++ {
		var sp streamPlan
		if burst {
			n := r.Pick(300, 2100, 2500, 4200)
			sp.C2S.W = []wOp{{K: "burst", N: n}}
			sp.C2S.R = []rOp{{K: "deadline", N: 30000}, {K: "rb", N: n}, {K: "release"}}
			p.Streams = append(p.Streams, sp)
			p.Chaos = []nbOp{{K: "stall", N: 400, Side: 1}}
			p.Faulty = true
			continue
		}
		budget := r.Pick(200, 2000, 20000, 120000)
		nm := 1 + r.Intn(5)
		total := 0
		for j := 0; j < nm && budget > 0; j++ {
			if prop == "C11" && r.Chance(1, 4) {
				sp.C2S.W = append(sp.C2S.W, wOp{K: "wdeadline", N: r.Pick(1, 15, 60, 500)})
			}
			op := genMsg(r, p.Cfg, &budget)
			total += wopBytes(op)
			sp.C2S.W = append(sp.C2S.W, op)
			if r.Chance(1, 5) {
				sp.C2S.W = append(sp.C2S.W, wOp{K: "sleep", N: r.Pick(1, 15, 200, 3000)})
			}
		}
		closeBy := r.Intn(6) // 0 client writer, 1 server reader, 2 both, 3 nobody (main closes), 4 client then server, 5 server writer
		if closeBy == 0 || closeBy == 2 || closeBy == 4 {
			sp.C2S.W = append(sp.C2S.W, wOp{K: "close"})
		}
		if !p.Accept && (prop == "C06" || prop == "C07" || prop == "C20") && r.Chance(1, 6) {
			// the asynchronous server of the examples: OnData consumes what is there, hands the read buffer over for
			// reuse (ReleaseReadAndReuse) and answers on the same stream from inside the callback; the client
			// pipelines its requests and collects the answers
			sp.Callback = true
			sp.CbOps = []rOp{{K: "reply", N: 1 + r.Intn(300)}}
			sp.S2C.R = []rOp{{K: "deadline", N: 3000}, {K: "drain"}, {K: "release"}}
			p.Streams = append(p.Streams, sp)
			continue
		}
		if !p.Accept && (prop == "C20" || (prop == "C10" && r.Chance(1, 2)) || (prop != "C06" && prop != "C19" && r.Chance(1, 4))) {
			sp.Callback = true
			nc := 1 + r.Intn(4)
			for j := 0; j < nc; j++ {
				switch r.Intn(8) {
				case 0, 1, 2:
					sp.CbOps = append(sp.CbOps, rOp{K: "all"})
				case 3, 4:
					if prop == "C08" && r.Chance(1, 2) {
						// the application keeps a zero-copy result beyond the return of OnData and releases it later
						sp.CbOps = append(sp.CbOps, rOp{K: "keep", N: anchoredSize(r, p.Cfg)})
						break
					}
					sp.CbOps = append(sp.CbOps, rOp{K: "part", N: anchoredSize(r, p.Cfg)})
				case 5:
					if prop == "C10" && r.Chance(1, 2) {
						// wait inside the callback for more than will ever arrive: only the peer's close can end the wait early
						sp.CbOps = append(sp.CbOps, rOp{K: "need", N: total + 1 + r.Intn(50)})
					} else {
						sp.CbOps = append(sp.CbOps, rOp{K: "need", N: 1 + r.Intn(1+total/2)})
					}
				case 6:
					sp.CbOps = append(sp.CbOps, rOp{K: "sleep", N: r.Pick(1, 30)})
				default:
					if prop == "C10" || prop == "C09" || r.Chance(1, 3) {
						sp.CbOps = append(sp.CbOps, rOp{K: "close"})
					} else {
						sp.CbOps = append(sp.CbOps, rOp{K: "all"})
					}
				}
			}
		} else {
			sp.C2S.R = genReaderOps(r, p.Cfg, total, closeBy == 1 || closeBy == 2 || closeBy == 4)
		}
		cbCloses := false
		for _, c := range sp.CbOps {
			if c.K == "close" {
				cbCloses = true
			}
		}
		// reverse direction (not when the callback end closes from inside OnData: the deferred close would race
		// with a writer thread on the same end, which the API does not promise to support)
		if r.Chance(1, 2) && !cbCloses {
			b2 := r.Pick(100, 3000, 40000)
			nm2 := 1 + r.Intn(3)
			t2 := 0
			for j := 0; j < nm2 && b2 > 0; j++ {
				op := genMsg(r, p.Cfg, &b2)
				t2 += wopBytes(op)
				sp.S2C.W = append(sp.S2C.W, op)
			}
			if closeBy == 5 {
				sp.S2C.W = append(sp.S2C.W, wOp{K: "close"})
			}
			sp.S2C.R = genReaderOps(r, p.Cfg, t2, false)
		}
		p.Streams = append(p.Streams, sp)
	}
	if prop == "C14" {
		kinds := []string{"kill_client", "kill_server", "sever", "sever_rst", "close_client", "close_server", "close_both"}
		c := &crashPlan{Kind: kinds[r.Intn(len(kinds))], Twice: r.Chance(1, 3)}
		switch r.Intn(5) {
		case 0:
			c.AtStep = -int64(5 + r.Intn(400)) // during the handshake
		case 1:
			c.AtStep = int64(r.Intn(60))
		case 2:
			c.AtStep = int64(r.Intn(600))
		default:
			c.AtStep = int64(r.Intn(5000))
		}
		if v := opts["crash_at"]; v != "" {
			fmt.Sscanf(v, "%d", &c.AtStep)
		}
		if v := opts["crash_kind"]; v != "" {
			c.Kind = v
		}
		c.Opener = r.Chance(1, 2)
		p.Crash = c
	}
	// neighbour: exhaustion windows and scribbling
	if r.Chance(1, 2) {
		n := 1 + r.Intn(5)
		for i := 0; i < n; i++ {
			switch r.Intn(5) {
			case 0, 1:
				p.Neighbor = append(p.Neighbor, nbOp{K: "hog", N: r.Pick(0, 0, 1, 2, 5), Side: r.Intn(2)})
			case 2:
				p.Neighbor = append(p.Neighbor, nbOp{K: "release"})
			case 3:
				p.Neighbor = append(p.Neighbor, nbOp{K: "scribble", N: 1 + r.Intn(6), Side: r.Intn(2)})
			default:
				p.Neighbor = append(p.Neighbor, nbOp{K: "sleep", N: r.Pick(1, 10, 100, 1000)})
			}
		}
		p.Neighbor = append(p.Neighbor, nbOp{K: "release"})
	}
	if p.Faulty && r.Chance(1, 2) {
		n := 1 + r.Intn(3)
		for i := 0; i < n; i++ {
			p.Chaos = append(p.Chaos, nbOp{K: "sleep", N: r.Pick(0, 1, 5, 50)})
			p.Chaos = append(p.Chaos, nbOp{K: "stall", N: r.Pick(5, 50, 150, 400), Side: r.Intn(2)})
		}
	}
	if prop == "C05" && !p.Faulty && r.Chance(1, 3) {
		// tuning knob: the send channel of a session holds 4096 events in production, which no simulated population
		// fills; with 1-4 slots the paths taken when it is full run. Only in runs without stalls or session loss: a
		// sender parked on a tiny channel of a session that has gone away would be a hang production cannot have.
		p.Sim.ChanCap = r.Pick(1, 2, 4)
	}
	return p
}

func (sessScenario) Shrink(plan interface{}) []interface{} {
	p := plan.(*sessPlan)
	clone := func() *sessPlan {
		b, _ := json.Marshal(p)
		var q sessPlan
		_ = json.Unmarshal(b, &q)
		return &q
	}
	var out []interface{}
	if len(p.Streams) > 1 {
		for i := range p.Streams {
			q := clone()
			q.Streams = append(q.Streams[:i], q.Streams[i+1:]...)
			out = append(out, q)
		}
	}
	if len(p.Neighbor) > 0 {
		q := clone()
		q.Neighbor = nil
		out = append(out, q)
	}
	if len(p.Chaos) > 0 {
		q := clone()
		q.Chaos = nil
		out = append(out, q)
	}
	for i := range p.Streams {
		if len(p.Streams[i].S2C.W) > 0 {
			q := clone()
			q.Streams[i].S2C = dirPlan{}
			out = append(out, q)
		}
		for j := range p.Streams[i].C2S.W {
			q := clone()
			q.Streams[i].C2S.W = append(q.Streams[i].C2S.W[:j], q.Streams[i].C2S.W[j+1:]...)
			out = append(out, q)
		}
		for j := range p.Streams[i].C2S.R {
			q := clone()
			q.Streams[i].C2S.R = append(q.Streams[i].C2S.R[:j], q.Streams[i].C2S.R[j+1:]...)
			out = append(out, q)
		}
		for j := range p.Streams[i].CbOps {
			if len(p.Streams[i].CbOps) > 1 {
				q := clone()
				q.Streams[i].CbOps = append(q.Streams[i].CbOps[:j], q.Streams[i].CbOps[j+1:]...)
				out = append(out, q)
			}
		}
		for j, op := range p.Streams[i].C2S.W {
			if len(op.Pieces) > 1 {
				q := clone()
				q.Streams[i].C2S.W[j].Pieces = q.Streams[i].C2S.W[j].Pieces[:1]
				out = append(out, q)
			}
		}
	}
	if p.Cfg.FragR || p.Cfg.FragW || p.Cfg.Spurious != 0 {
		q := clone()
		q.Cfg.FragR, q.Cfg.FragW, q.Cfg.Spurious = false, false, 0
		out = append(out, q)
	}
	if p.Sim.PointMean != 0 {
		q := clone()
		q.Sim.PointMean = 0
		out = append(out, q)
	}
	return out
}

// ---------------------------------------------------------------------------
// model

type seg struct {
	data   []byte
	status int // 0 pending (flush in flight), 1 sure (flush returned nil), 2 maybe (flush failed: all or nothing)
	doneAt time.Duration
}

type mpos struct{ seg, off int }

// matcher tracks the set of positions in the expected stream the reader may be at.
type matcher struct {
	segs []*seg
	cur  map[mpos]bool
}

func newMatcher() *matcher { return &matcher{cur: map[mpos]bool{{0, 0}: true}} }

func (m *matcher) closure(set map[mpos]bool) map[mpos]bool {
	out := map[mpos]bool{}
	var add func(p mpos)
	add = func(p mpos) {
		for p.seg < len(m.segs) && p.off >= len(m.segs[p.seg].data) {
			p = mpos{p.seg + 1, 0}
		}
		if out[p] {
			return
		}
		out[p] = true
		if p.seg < len(m.segs) && p.off == 0 && m.segs[p.seg].status != 1 {
			add(mpos{p.seg + 1, 0}) // a pending/maybe message may be absent
		}
	}
	for p := range set {
		add(p)
	}
	return out
}

// advance consumes b (compare=true) or n unknown bytes. Returns false when no position explains the bytes.
func (m *matcher) advanceOn(cur map[mpos]bool, b []byte, n int, compare bool) (map[mpos]bool, bool) {
	if compare {
		n = len(b)
	}
	for i := 0; i < n; i++ {
		next := map[mpos]bool{}
		for p := range m.closure(cur) {
			if p.seg >= len(m.segs) {
				continue
			}
			if !compare || m.segs[p.seg].data[p.off] == b[i] {
				next[mpos{p.seg, p.off + 1}] = true
			}
		}
		if len(next) == 0 {
			return nil, false
		}
		cur = next
	}
	return cur, true
}

func (m *matcher) consume(b []byte) bool {
	c, ok := m.advanceOn(m.cur, b, 0, true)
	if ok {
		m.cur = c
	}
	return ok
}

func (m *matcher) skip(n int) bool {
	c, ok := m.advanceOn(m.cur, nil, n, false)
	if ok {
		m.cur = c
	}
	return ok
}

func (m *matcher) peek(b []byte) bool {
	_, ok := m.advanceOn(m.cur, b, 0, true)
	return ok
}

// minConsumedSure returns the smallest number of *sure* bytes before any possible position.
func (m *matcher) behindSure(limitSeg int) bool {
	// true if some possible position has not yet consumed every sure segment with index < limitSeg
	for p := range m.closure(m.cur) {
		for i := p.seg; i < limitSeg && i < len(m.segs); i++ {
			if m.segs[i].status == 1 && (i > p.seg || p.off < len(m.segs[i].data)) {
				return true
			}
		}
	}
	return false
}

func (m *matcher) expectedNext(n int) []byte {
	// for messages: the expected bytes along the "all messages present" path
	var out []byte
	for p := range m.closure(m.cur) {
		q := p
		for len(out) < n && q.seg < len(m.segs) {
			d := m.segs[q.seg].data[q.off:]
			if len(d) > n-len(out) {
				d = d[:n-len(out)]
			}
			out = append(out, d...)
			q = mpos{q.seg + 1, 0}
		}
		break
	}
	return out
}

type dirState struct {
	m         *matcher
	sureBytes int64
	allBytes  int64 // sure + pending + maybe
	consumed  int64
	msgIdx    int
	// close bookkeeping of the *writer's* end
	closeInvoked  bool
	closeSegMark  int // number of segments that were sure when Close was invoked
	closeReturned bool
	closeReturnAt time.Duration
	writerDone    bool
	readerDone    bool
	readerEOF     bool
	// reader blocked info (for the hang oracle)
	rBlockedNeed     int
	rBlockedSince    time.Duration
	rInCall          bool
	rCallKind        string
	rDeadline        time.Time
	rLastLen         int
	wDeadline        time.Time
	closeViaSocket   bool // the close notification of this direction's writer went through the socket (queue full)
	usedShm          bool // some message of this direction travelled through the shared-memory queue
	usedFallback     bool // ... through the socket
	shmAfterFallback bool // ... through the queue after an earlier one went through the socket
	wInFlush         bool          // the writer is inside Flush/Write
	wFlushSince      time.Duration // ... since this instant
	ghostRunning     bool   // the application is closing a re-created ("ghost") server stream of this id
	ghostQf          uint64
	closeRunning     bool   // the writer's Close() has been called and has not returned
	qfAtClose        uint64 // queue-full counter of the session when that Close() started
}

// sureSince tells when the first `upto` bytes of this direction had all been flushed successfully (false if a failed
// or unfinished flush lies before that point).
func (d *dirState) sureSince(upto int64) (time.Duration, bool) {
	var sum int64
	var at time.Duration
	for _, sg := range d.m.segs {
		if sg.status != 1 {
			return 0, false
		}
		sum += int64(len(sg.data))
		if sg.doneAt > at {
			at = sg.doneAt
		}
		if sum >= upto {
			return at, true
		}
	}
	return 0, false
}

// closeWentViaSocket also recognises a Close that is still running: the peer can observe the socket notification
// before Close() returns to the harness (the library counts the full queue before it writes to the socket).
func (d *dirState) closeWentViaSocket(we *endState) bool {
	if we.stream == nil {
		return d.closeViaSocket
	}
	qf := we.stream.session.stats.queueFullErrorCount
	return d.closeViaSocket || (d.closeRunning && qf != d.qfAtClose) || (d.ghostRunning && qf != d.ghostQf)
}

type endState struct {
	stream              *Stream
	closeInvoked        bool
	closeReturned       bool
	closeRetAt          time.Duration
	sawEOF              bool
	inCall              [2]int // 0 writer thread, 1 reader thread: >0 while inside a library call
	g                   [2]*simrt.G
	cbLocal             int
	cbRemote            int
	hasCb               bool
	inOnData            int
	cbInvocations       int
	cbAfterClose        int
	closedInCallback    bool
	fallbackBeforeClose bool // some message of this end travelled through the socket before Close was invoked
	usedFallback        bool
}

type pinned struct {
	b    []byte
	want []byte
	what string
}

type sessStream struct {
	idx           int
	id            uint32
	plan          *streamPlan
	ends          [2]*endState // 0 client, 1 server
	dirs          [2]*dirState // 0 c2s, 1 s2c
	pins          [2][]pinned  // per receiving end: 0 = server end reading c2s ... indexed by dir
	serverReady   chan struct{}
	pinnedAtClose bool
}

type sessWorld struct {
	lateOnData string
	floodDone bool
	floodStep int64
	plan       *sessPlan
	sim        *simrt.Sim
	own        string
	pm, pc, ps *simrt.Proc
	dir        string
	crashKind  string
	cli, srv   *Session
	streams    []*sessStream
	byID       map[uint32]*sessStream
	threads    int
	fin        chan int
	hogs       [2][]*bufferSlice
	probes     map[string]int64
	ops        int64
	opened     int
	// crash bookkeeping (C14)
	established bool
	estStep     int64
	crashed     bool
	crashAt     time.Duration
	thr         []*thread
	fdC, fdS    int
	stallEnd    [2]time.Time // per side: end of the last injected process stall
	acceptorG   *simrt.G
	sockC       *ssys.Sock
	tap         [2][]byte
	hsDone      bool
}

type thread struct {
	name string
	proc *simrt.Proc
	g    *simrt.G
	done bool
}

func (w *sessWorld) on(props ...string) bool {
	if w.own == "" {
		return true
	}
	for _, p := range props {
		if p == w.own {
			return true
		}
	}
	return false
}

func (w *sessWorld) probe(name string) { w.probes[name]++ }

// fail records a violation only when the rule belongs to the property being checked (or the harness
// itself); an oracle of another property firing is counted, not reported, and does not end the run.
func (w *sessWorld) fail(rule, format string, args ...interface{}) {
	w.failTagged(rule, nil, format, args...)
}

func (w *sessWorld) failTagged(rule string, tags map[string]string, format string, args ...interface{}) {
	if w.own == "" || strings.HasPrefix(rule, w.own+".") || strings.HasPrefix(rule, "harness.") {
		simrt.FailTagged(rule, tags, format, args...)
		return
	}
	w.probes["other_oracle."+rule]++
}

func genByte(stream, dir, msg, j int) byte {
	x := uint32(stream+1)*2654435761 ^ uint32(dir+1)*97 ^ uint32(msg+1)*40503 ^ uint32(j)*2246822519
	x ^= x >> 15
	return byte(x)
}

func msgBytes(stream, dir, msg, n int) []byte {
	b := make([]byte, n)
	for j := range b {
		b[j] = genByte(stream, dir, msg, j)
	}
	return b
}

func (w *sessWorld) checkPins() {
	if !w.on("C08") {
		return
	}
	for _, st := range w.streams {
		for d := 0; d < 2; d++ {
			for _, p := range st.pins[d] {
				if !bytes.Equal(p.b, p.want) {
					w.fail("C08.pinned_changed", "stream %d dir %d: bytes returned by %s changed before they were released (first diff at %d of %d)", st.idx, d, p.what, firstDiff(p.b, p.want), len(p.want))
					return
				}
			}
		}
	}
}

// attribute (debugging aid) finds the generated message the bytes belong to.
func (w *sessWorld) attribute(b []byte) string {
	if len(b) < 6 {
		return "too short"
	}
	for st := 0; st < 8; st++ {
		for dir := 0; dir < 2; dir++ {
			for msg := 0; msg < 5000; msg++ {
				if msg > 12 && msg < 4990 {
					continue
				}
				for j := 0; j < 140000; j++ {
					if genByte(st, dir, msg, j) != b[0] {
						continue
					}
					ok := true
					for k := 1; k < len(b); k++ {
						if genByte(st, dir, msg, j+k) != b[k] {
							ok = false
							break
						}
					}
					if ok {
						return fmt.Sprintf("stream %d dir %d msg %d offset %d", st, dir, msg, j)
					}
				}
			}
		}
	}
	return "nothing generated by this run"
}

func firstDiff(a, b []byte) int {
	for i := range a {
		if i >= len(b) || a[i] != b[i] {
			return i
		}
	}
	return -1
}

func (sessScenario) Run(s *simrt.Sim, plan interface{}, opts map[string]string) (*simrt.Proc, func()) {
	p := plan.(*sessPlan)
	ssys.NewKernel(s, p.Cfg.kernel())
	installGlobals(s)
	w := &sessWorld{plan: p, sim: s, own: opts["property"], byID: map[uint32]*sessStream{}, probes: map[string]int64{}}
	w.pm = newProc(s, "harness", 3000) // the main thread lives in a process of its own: it survives every kill
	w.pc = newProc(s, "client", 3001)
	w.ps = newProc(s, "server", 3002)
	dir := newRunDir(s)
	w.dir = dir
	s.OnEnd = append(s.OnEnd, func() {
		for k, v := range w.probes {
			s.Counters["probe."+k] = v
		}
		s.Counters["sess.ops"] = w.ops
		s.Counters["sess.est_step"] = w.estStep
	})
	if p.Crash != nil {
		s.StepHook = w.stepHook
	}
	return w.pm, func() { w.main(dir) }
}

type lcb struct{ w *sessWorld }

func (l *lcb) OnNewStream(st *Stream)   { l.w.serverStream(st) }
func (l *lcb) OnShutdown(reason string) {}

// stepHook injects the C14 fault at an exact scheduling step (runs on the scheduler root).
func (w *sessWorld) stepHook(step int64) {
	c := w.plan.Crash
	if c == nil || w.crashed {
		return
	}
	target := c.AtStep
	if c.Flood > 0 {
		if !w.floodDone {
			return
		}
		target += w.floodStep
	} else if target >= 0 {
		if !w.established {
			return
		}
		target += w.estStep
	} else {
		target = -target
		if w.hsDone && !w.established {
			return
		}
	}
	if step < target {
		return
	}
	w.crashed = true
	w.crashAt = simrt.Now()
	kind := c.Kind
	if !w.established && (kind == "close_client" || kind == "close_server" || kind == "close_both") {
		kind = "sever"
	}
	w.crashKind = kind
	simrt.Event("CRASH %s at step %d", kind, step)
	for _, th := range w.thr {
		th.g.Tag("after_session_loss", "yes") // discriminator of finding F-TEARDOWN (user goroutines racing with / following session teardown)
	}
	// the other party of that race is the event loop running the teardown: its panics carry the tag as well
	simrt.SetGlobalTag("after_session_loss", "yes")
	switch kind {
	case "kill_client":
		ssys.K.KillProc(w.pc)
	case "kill_server":
		ssys.K.KillProc(w.ps)
	case "sever", "sever_rst":
		ssys.K.Sever(w.sockC, kind == "sever_rst")
	case "close_client", "close_server", "close_both":
		for _, th := range w.thr {
			if (kind != "close_server" && th.proc == w.pc) || (kind != "close_client" && th.proc == w.ps) {
				th.g.Tag("session_closed_locally", "yes")
			}
		}
		closeIt := func(s *Session, name string) {
			simrt.GoProc(w.pm, name, func() {
				_ = s.Close()
				if c.Twice {
					_ = s.Close()
				}
			})
			if c.Twice {
				simrt.GoProc(w.pm, name+"2", func() { _ = s.Close() })
			}
		}
		if kind != "close_server" {
			closeIt(w.cli, "close-client")
		}
		if kind != "close_client" {
			closeIt(w.srv, "close-server")
		}
		simrt.Count("fault.session_close_concurrent", 1)
	}
}

func (w *sessWorld) main(dir string) {
	p := w.plan
	simrt.PointsOn(p.Crash != nil && p.Crash.AtStep < 0)
	confC := p.Cfg.config(dir, "c")
	confS := p.Cfg.config(dir, "s")
	if !p.Accept {
		confS.listenCallback = &lcb{w}
	}
	w.fdC, w.fdS = ssys.K.SocketPair(w.pc, w.ps, "unix", "@cli-0", "@srv-0")
	w.sockC = ssys.K.SockOf(w.fdC)
	connC, connS := simnet.WrapFd(w.fdC), simnet.WrapFd(w.fdS)
	var cli, srv *Session
	var e1, e2 error
	hs := make(chan int, 2)
	hsStart := simrt.Now()
	var hsRet [2]time.Duration
	simrt.GoProc(w.ps, "server-handshake", func() {
		srv, e2 = Server(connS, confS)
		if e2 != nil {
			_ = connS.Close()
		}
		hsRet[1] = simrt.Now() + 1
		simrt.Send(hs, 1)
	})
	simrt.GoProc(w.pc, "client-handshake", func() {
		cli, e1 = newSession(confC, connC, true)
		if e1 != nil {
			_ = connC.Close()
		}
		hsRet[0] = simrt.Now() + 1
		simrt.Send(hs, 0)
	})
	got := 0
	bound := simrt.NewTimer(confC.InitializeTimeout + 30*time.Second)
	for got < 2 {
		i, _, _ := simrt.Select(false, simrt.RecvCase(hs), simrt.RecvCase(bound.C))
		if i != 0 {
			break
		}
		got++
	}
	bound.Stop()
	w.hsDone = true
	simrt.PointsOn(true)
	w.cli, w.srv = cli, srv
	if w.crashed {
		// the fault hit the handshake: every surviving side must have returned, in time, and sessions that did get
		// created must end up closed
		w.handshakeCrashOracles(hsStart, hsRet, e1, e2, confC.InitializeTimeout)
		return
	}
	if got < 2 || e1 != nil || e2 != nil {
		w.fail("harness.handshake", "fault-free handshake failed: returned=%d client=%v server=%v", got, e1, e2)
		return
	}
	w.fin = make(chan int, 64)
	// open all client streams first so that ids are known before any data flows
	for i := range p.Streams {
		st, err := cli.OpenStream()
		if err != nil {
			if w.crashed {
				break
			}
			w.fail("harness.open", "OpenStream: %v", err)
			return
		}
		ss := &sessStream{idx: i, id: st.StreamID(), plan: &p.Streams[i], serverReady: make(chan struct{})}
		ss.ends[0] = &endState{stream: st}
		ss.ends[1] = &endState{}
		ss.dirs[0] = &dirState{m: newMatcher()}
		ss.dirs[1] = &dirState{m: newMatcher()}
		w.streams = append(w.streams, ss)
		w.byID[ss.id] = ss
		w.opened++
	}
	w.estStep = simrt.Steps()
	w.established = true
	if w.on("C18") {
		// wire tap (after the handshake): everything either event loop will read
		w.sockC.Tap = func(dir int, b []byte) { w.tap[0] = append(w.tap[0], b...) }
		w.sockC.Peer().Tap = func(dir int, b []byte) { w.tap[1] = append(w.tap[1], b...) }
	}
	if p.Crash != nil && p.Crash.Flood > 0 {
		w.spawn(w.pc, "flooder", func() { w.flooder(p.Crash.Flood) })
	} else if p.Accept {
		w.acceptorG = simrt.GoProc(w.ps, "acceptor", func() {
			simrt.MarkDaemon()
			for {
				st, err := srv.AcceptStream()
				if err != nil {
					return
				}
				w.serverStream(st)
			}
		})
	}
	for _, ss := range w.streams {
		ss := ss
		if len(ss.plan.C2S.W) > 0 {
			w.spawn(w.pc, fmt.Sprintf("CW%d", ss.idx), func() { w.writer(ss, 0) })
		}
		if len(ss.plan.S2C.R) > 0 {
			w.spawn(w.pc, fmt.Sprintf("CR%d", ss.idx), func() { w.reader(ss, 1) })
		}
	}
	if p.Crash != nil && p.Crash.Opener {
		w.spawn(w.pc, "opener", w.opener)
	}
	if len(p.Neighbor) > 0 {
		w.spawn(w.pc, "neighbor", func() { w.neighbor(p.Neighbor) })
	}
	if len(p.Chaos) > 0 {
		w.spawn(w.pc, "chaos", func() { w.neighbor(p.Chaos) })
	}
	// wait for the threads, with a generous virtual-time bound
	w.waitThreads(120 * time.Second)
	if simrt.Failed() {
		return
	}
	if w.crashed {
		w.survivorOracles()
		return
	}
	simrt.Sleep(10 * time.Second) // settle
	if w.crashed {
		w.survivorOracles()
		return
	}
	w.quiescenceOracles()
	if simrt.Failed() {
		return
	}
	// close whatever is still open, from the main thread (all threads are finished or blocked)
	for _, ss := range w.streams {
		for e := 0; e < 2; e++ {
			es := ss.ends[e]
			if es.stream != nil && !es.closeInvoked {
				w.closeEnd(ss, e, -1)
			}
		}
	}
	w.waitThreads(30 * time.Second)
	w.releaseHogs()
	simrt.Sleep(10 * time.Second)
	if w.crashed {
		w.survivorOracles()
		return
	}
	w.finalOracles()
	if simrt.Failed() {
		return
	}
	_ = cli.Close()
	_ = srv.Close()
	simrt.Sleep(5 * time.Second)
	if w.acceptorG != nil && !w.acceptorG.Done() && w.on("C11") {
		w.fail("C11.accept_hang", "AcceptStream is still blocked 5 s after its session was closed")
		return
	}
	if w.on("C14") {
		w.census("after a graceful close of both ends")
	}
}

func (w *sessWorld) alive(p *simrt.Proc) bool { return !p.Dead }

// census: once both ends are closed the processes hold no descriptor, mapping or file that the session created.
func (w *sessWorld) census(when string) {
	for _, pr := range []*simrt.Proc{w.pc, w.ps} {
		if !w.alive(pr) {
			continue
		}
		c := ssys.K.CensusOf(pr)
		var socks []string
		for _, fd := range c.SimFds {
			if k := ssys.K.FdKind(fd); k != "epoll" {
				socks = append(socks, fmt.Sprintf("%d:%s", fd, k))
			}
		}
		if len(socks) > 0 || len(c.RealFds) > 0 || c.Mappings > 0 {
			tags := map[string]string{}
			if !w.established {
				tags["phase"] = "handshake"
			}
			if len(c.RealFds) == 0 && c.Mappings == 0 {
				tags["leak"] = "socket_descriptor_only"
			}
			w.failTagged("C14.resource_left", tags, "%s, process %s still holds: descriptors %v, memfds %v, %d mapping(s)", when, pr.Name, socks, c.RealFds, c.Mappings)
			return
		}
	}
	// files: when both processes are alive, or when one died after the session was established (the survivor had
	// mapped the files and removes them when it unmaps; a creator that dies mid-handshake may leave them)
	if (w.alive(w.pc) && w.alive(w.ps)) || w.established {
		ents, _ := os.ReadDir(w.dir)
		if len(ents) > 0 {
			names := []string{}
			for _, e := range ents {
				names = append(names, e.Name())
			}
			w.fail("C14.resource_left", "%s, files are left behind in the shared-memory directory: %v", when, names)
		}
	}
}

func (w *sessWorld) handshakeCrashOracles(hsStart time.Duration, hsRet [2]time.Duration, e1, e2 error, initTimeout time.Duration) {
	simrt.Sleep(initTimeout + 10*time.Second)
	names := []string{"client", "server"}
	procs := []*simrt.Proc{w.pc, w.ps}
	sess := []*Session{w.cli, w.srv}
	errs := []error{e1, e2}
	for i := 0; i < 2; i++ {
		if !w.alive(procs[i]) {
			continue
		}
		if hsRet[i] == 0 {
			w.fail("C14.handshake_hang", "the %s's handshake call has not returned %v after the connection was lost mid-handshake (InitializeTimeout %v)", names[i], simrt.Now()-w.crashAt, initTimeout)
			return
		}
		if errs[i] == nil && sess[i] != nil {
			if !sess[i].IsClosed() {
				// the peer may have completed the handshake before the fault; then the loss must have been noticed by now
				w.fail("C14.not_closed", "the %s session was established just before the connection was lost (%s) but is still not closed %v later", names[i], w.crashKind, simrt.Now()-w.crashAt)
				return
			}
		}
	}
	for i := 0; i < 2; i++ {
		if w.alive(procs[i]) && sess[i] != nil {
			_ = sess[i].Close()
		}
	}
	simrt.Sleep(5 * time.Second)
	w.census("after a connection loss during the handshake (" + w.crashKind + ")")
}

func (w *sessWorld) survivorOracles() {
	// give the survivors time to notice
	if d := w.crashAt + 5*time.Second - simrt.Now(); d > 0 {
		simrt.Sleep(d)
	}
	kind := w.crashKind
	procs := []*simrt.Proc{w.pc, w.ps}
	sess := []*Session{w.cli, w.srv}
	names := []string{"client", "server"}
	for i := 0; i < 2; i++ {
		if !w.alive(procs[i]) {
			continue
		}
		// a local Close of only the other side is noticed through the connection; everything else closes this side directly
		if !sess[i].IsClosed() {
			w.fail("C14.not_closed", "%v after %s the %s session is still not closed", simrt.Now()-w.crashAt, kind, names[i])
			return
		}
	}
	// every pending and later stream call of the survivors fails: no harness thread may still be stuck
	w.waitThreads(30 * time.Second)
	for _, th := range w.thr {
		if th.done || !w.alive(th.proc) {
			continue
		}
		w.fail("C14.hang", "%v after %s thread %s of the surviving %s process is still blocked (%s)", simrt.Now()-w.crashAt, kind, th.name, th.proc.Name, th.g.What())
		return
	}
	// later calls fail too
	for _, ss := range w.streams {
		for e := 0; e < 2; e++ {
			es := ss.ends[e]
			if es.stream == nil || !w.alive(procs[e]) {
				continue
			}
			if es.stream.IsOpen() {
				// closed sessions close their streams on the event loop; give it the settle time already spent
				w.fail("C14.stream_open", "stream %d end %d is still open after its session closed (%s)", ss.idx, e, kind)
				return
			}
			_, err := es.stream.BufferReader().ReadBytes(1)
			if err == nil {
				w.fail("C14.read_after_death", "stream %d end %d: ReadBytes succeeded after the session closed (%s)", ss.idx, e, kind)
				return
			}
			if es.hasCb && es.cbLocal+es.cbRemote != 1 {
				w.fail("C14.close_callbacks", "stream %d: callback end got %d close callbacks (local %d, remote %d) after %s, expected exactly one", ss.idx, es.cbLocal+es.cbRemote, es.cbLocal, es.cbRemote, kind)
				return
			}
		}
	}
	for i := 0; i < 2; i++ {
		if w.alive(procs[i]) {
			_ = sess[i].Close() // idempotent
		}
	}
	simrt.Sleep(5 * time.Second)
	w.census("after " + kind + " and Close of the survivors")
}

func (w *sessWorld) spawn(p *simrt.Proc, name string, f func()) {
	w.threads++
	id := w.threads
	th := &thread{name: name, proc: p}
	w.thr = append(w.thr, th)
	th.g = simrt.GoProc(p, name, func() {
		defer func() { th.done = true; simrt.Send(w.fin, id) }()
		if w.crashed {
			simrt.SetTag("after_session_loss", "yes")
		}
		f()
	})
}

// flooder opens n streams and sends one byte on each while nobody accepts on the server; after the last one the
// event loop of the server is parked on its full accept channel, and the planned Session.Close strikes.
func (w *sessWorld) flooder(n int) {
	for i := 0; i < n && !simrt.Failed(); i++ {
		st, err := w.cli.OpenStream()
		if err != nil || st == nil {
			break
		}
		_ = st.BufferWriter().WriteByte(byte(i))
		_ = st.Flush(false)
		w.ops++
	}
	simrt.Sleep(50 * time.Millisecond)
	w.probe("flood_done")
	w.floodStep = simrt.Steps()
	w.floodDone = true
}

// opener (C14: "all later calls fail", "Close is safe to call concurrently with traffic"): OpenStream keeps being
// called on the client session across the fault; it returns a stream or an error, never neither, and never panics.
func (w *sessWorld) opener() {
	after := 0
	for i := 0; i < 3000 && !simrt.Failed(); i++ {
		st, err := w.cli.OpenStream()
		if st == nil && err == nil {
			w.fail("C14.open_nil", "OpenStream returned neither a stream nor an error (session closed: %v)", w.cli.shutdown == 1)
			return
		}
		if st != nil {
			_ = st.Close()
		}
		w.probe("opener_open")
		if w.crashed {
			if err != nil {
				w.probe("opener_refused")
			}
			if after++; after > 20 {
				return
			}
		}
		if i%4 == 3 {
			simrt.Sleep(time.Millisecond)
		}
	}
}

func (w *sessWorld) waitThreads(bound time.Duration) {
	deadline := simrt.Now() + bound
	for w.threads > 0 {
		if simrt.Failed() {
			return
		}
		left := deadline - simrt.Now()
		if left <= 0 {
			return
		}
		t := simrt.NewTimer(left)
		i, _, _ := simrt.Select(false, simrt.RecvCase(w.fin), simrt.RecvCase(t.C))
		t.Stop()
		if i == 0 {
			w.threads--
		} else {
			return
		}
	}
}

// serverStream is called (on the event loop or the acceptor) when the server learns of a stream.
func (w *sessWorld) serverStream(st *Stream) {
	ss := w.byID[st.StreamID()]
	if ss == nil {
		w.fail("C07.unknown_stream", "server was handed stream id %d which the client never opened", st.StreamID())
		return
	}
	es := ss.ends[1]
	if es.stream != nil {
		// data for a stream id whose server end was already closed re-creates a server stream (the
		// protocol has no open message); the application closes such a late stream.
		if !es.closeInvoked {
			w.fail("C19.accept_twice", "stream %d surfaced twice on the server while its first server end was still open", ss.idx)
			return
		}
		w.probe("ghost_stream")
		simrt.GoProc(w.ps, "ghost-closer", func() {
			// this close is one more close notification for the same stream id; like any other it goes through the
			// socket when the queue is full (finding F-ORDER (c): it then overtakes what still waits in the queue)
			d := ss.dirs[1]
			d.ghostQf = st.session.stats.queueFullErrorCount
			d.ghostRunning = true
			_ = st.Close()
			d.ghostRunning = false
			if st.session.stats.queueFullErrorCount != d.ghostQf {
				d.closeViaSocket = true
			}
		})
		return
	}
	es.stream = st
	if ss.plan.Callback {
		es.hasCb = true
		if err := st.SetCallbacks(&streamCb{w: w, ss: ss}); err != nil {
			w.fail("harness.callbacks", "SetCallbacks: %v", err)
		}
	} else if len(ss.plan.C2S.R) > 0 {
		w.spawn(w.ps, fmt.Sprintf("SR%d", ss.idx), func() { w.reader(ss, 0) })
	}
	if len(ss.plan.S2C.W) > 0 {
		w.spawn(w.ps, fmt.Sprintf("SW%d", ss.idx), func() { w.writer(ss, 1) })
	}
	close(ss.serverReady)
}

// endOf returns (writer end, reader end) indices of a direction: dir 0 = client->server.
func endsOf(dir int) (int, int) {
	if dir == 0 {
		return 0, 1
	}
	return 1, 0
}

// closeEnd closes one end of a stream from thread role (0 writer,1 reader,-1 main): it waits until the
// sibling thread of that end is finished, idle or really blocked (the API documents no guarantee for
// Close racing with a data call that is actively running on the same end).
func (w *sessWorld) closeEnd(ss *sessStream, end int, role int) {
	es := ss.ends[end]
	if es.stream == nil || es.closeInvoked {
		return
	}
	for tries := 0; tries < 20000; tries++ {
		safe := true
		for r := 0; r < 2; r++ {
			if r == role {
				continue
			}
			if es.inCall[r] > 0 {
				// a reader parked in the read wait (the select on data / close / deadline) may be closed under;
				// anything else that is inside a library call must finish first
				if !(r == 1 && es.g[r] != nil && es.g[r].ReallyBlocked() && es.g[r].What() == "select") {
					safe = false
				}
			}
		}
		if es.inOnData > 0 && role != 2 {
			// closing while a callback is running is the documented "close blocks / is deferred" case: allowed
		}
		if safe {
			break
		}
		simrt.Sleep(time.Millisecond)
	}
	if es.closeInvoked {
		return
	}
	es.closeInvoked = true
	for r := 0; r < 2; r++ {
		es.g[r].Tag("local_close", "yes")
	}
	es.fallbackBeforeClose = es.usedFallback || es.stream.inFallbackState
	if role == 2 || es.inOnData > 0 || (es.hasCb && es.stream.callbackInProcess == 1) {
		es.closedInCallback = true // Close invoked while OnData was running on this end (from inside it or from another goroutine)
	}
	if len(ss.pins[1-end]) > 0 {
		ss.pinnedAtClose = true
		ss.pins[1-end] = nil // Close releases what was read
	}
	// the writer's closure mark for this end's outgoing direction
	out := end // end 0 writes dir 0, end 1 writes dir 1
	d := ss.dirs[out]
	d.closeInvoked = true
	mark := 0
	for i, sg := range d.m.segs {
		if sg.status == 1 {
			mark = i + 1
		}
	}
	d.closeSegMark = mark
	simrt.Event("CLOSE s%d end%d role=%d", ss.idx, end, role)
	qfBefore := es.stream.session.stats.queueFullErrorCount
	d.qfAtClose = qfBefore
	d.closeRunning = true
	err := es.stream.Close()
	d.closeRunning = false
	if es.stream.session.stats.queueFullErrorCount != qfBefore {
		// the queue was full: the close notification went through the socket although the data went through the queue
		d.closeViaSocket = true
		w.probe("close_via_socket")
	}
	simrt.Event("CLOSE s%d end%d returned %v", ss.idx, end, err)
	es.closeReturned = true
	es.closeRetAt = simrt.Now()
	d.closeReturned = true
	d.closeReturnAt = es.closeRetAt
	if err != nil {
		w.probe("close_error")
	}
	w.probe("close")
	if w.on("C10") && es.stream.IsOpen() {
		w.fail("C10.still_open", "stream %d end %d reports open after Close returned", ss.idx, end)
	}
}

// beforeCall is invoked by a writer/reader thread before it starts a library call on its end: a data call
// is never *started* while a Close of the same end is in progress (the API documents no such guarantee);
// once the Close has returned the call is made and must fail.
func (w *sessWorld) beforeCall(es *endState) {
	for es.closeInvoked && !es.closeReturned {
		if simrt.Failed() {
			return
		}
		simrt.Sleep(time.Millisecond)
	}
	if es.closeInvoked {
		simrt.SetTag("local_close", "yes")
	}
}

func (w *sessWorld) tagThread(ss *sessStream, dir int) {
	wend, _ := endsOf(dir)
	usedFallback := ss.dirs[dir].usedFallback || (ss.ends[wend].stream != nil && ss.ends[wend].stream.inFallbackState)
	if (usedFallback && (ss.dirs[dir].usedShm || ss.dirs[dir].closeInvoked)) || (ss.dirs[dir].closeWentViaSocket(ss.ends[wend]) && ss.dirs[dir].usedShm) {
		simrt.SetTag("transport_switch", "yes")
	}
	if w.fallbackFlagCleared(ss, dir) {
		simrt.SetTag("fallback_flag_cleared", "yes")
	}
}

// fallbackFlagCleared: the writer of this direction sent data through the socket and its sticky fallback flag is
// off again (or it went back to the queue). The library never does that on a stream that is not pooled ("once we
// send data using uds, for this stream we will always use uds later to avoid unordering"); known finding F-ORDER is
// about the orderings that remain *with* that rule, so a verdict with this tag is not an instance of it.
func (w *sessWorld) fallbackFlagCleared(ss *sessStream, dir int) bool {
	wend, _ := endsOf(dir)
	d := ss.dirs[dir]
	we := ss.ends[wend]
	return d.shmAfterFallback || (d.usedFallback && we.stream != nil && !we.stream.inFallbackState)
}

func (w *sessWorld) isClosedErr(err error) bool {
	return err == ErrStreamClosed || err == ErrEndOfStream
}

func (w *sessWorld) writer(ss *sessStream, dir int) {
	wend, _ := endsOf(dir)
	es := ss.ends[wend]
	es.g[0] = simrt.Cur()
	d := ss.dirs[dir]
	defer func() { d.writerDone = true }()
	ops := ss.plan.C2S.W
	if dir == 1 {
		ops = ss.plan.S2C.W
	}
	st := es.stream
	for _, op := range ops {
		if simrt.Failed() {
			return
		}
		simrt.Yield(simrt.KHarness, "wop")
		w.ops++
		w.checkPins()
		switch op.K {
		case "sleep":
			simrt.Sleep(time.Duration(op.N) * time.Millisecond)
		case "wdeadline":
			d.wDeadline = time.Now().Add(time.Duration(op.N) * time.Millisecond)
			// SetDeadline (both directions at once) where nobody reads on this end, so that the read half cannot
			// disturb another thread's bookkeeping
			otherR := ss.plan.S2C.R
			if dir == 1 {
				otherR = ss.plan.C2S.R
			}
			if len(otherR) == 0 && !ss.plan.Callback && op.N%2 == 0 {
				_ = st.SetDeadline(d.wDeadline)
				w.probe("set_deadline_both")
			} else {
				_ = st.SetWriteDeadline(d.wDeadline)
			}
		case "close":
			w.closeEnd(ss, wend, 0)
		case "burst":
			for k := 0; k < op.N && !simrt.Failed(); k++ {
				data := msgBytes(ss.idx, dir, d.msgIdx, 1)
				d.msgIdx++
				sg := &seg{data: data, status: 0}
				d.m.segs = append(d.m.segs, sg)
				d.allBytes++
				es.inCall[0]++
				_, _ = st.BufferWriter().WriteBytes(data)
				err := st.Flush(false)
				es.inCall[0]--
				if err == nil {
					sg.status, sg.doneAt = 1, simrt.Now()
					d.sureBytes++
					d.usedShm = true
				} else {
					sg.status = 2
					w.probe("flush_failed")
				}
			}
			w.probe("burst")
		case "msg", "write":
			n := wopBytes(op)
			data := msgBytes(ss.idx, dir, d.msgIdx, n)
			d.msgIdx++
			closedBefore := es.closeReturned
			eofBefore := es.sawEOF
			sg := &seg{data: data, status: 0}
			w.beforeCall(es)
			closedBefore = es.closeReturned
			simrt.Event("W s%d d%d msg#%d %s %d bytes", ss.idx, dir, d.msgIdx-1, op.K, n)
			// register the message as in flight *before* anything of it can reach the peer
			d.m.segs = append(d.m.segs, sg)
			d.allBytes += int64(n)
			es.inCall[0]++
			flushStart := simrt.Now()
			d.wInFlush, d.wFlushSince = true, flushStart
			var err error
			if op.K == "write" {
				var wn int
				wn, err = st.Write(data)
				if err == nil && wn != n {
					w.fail("C19.short_write", "Write returned %d of %d without error", wn, n)
				}
			} else {
				bw := st.BufferWriter()
				off := 0
				for _, pc := range op.Pieces {
					chunk := data[off : off+pc.N]
					off += pc.N
					switch pc.K {
					case "wb":
						wn, e := bw.WriteBytes(chunk)
						if e != nil || wn != len(chunk) {
							w.fail("C06.write", "WriteBytes(%d) returned %d, %v", len(chunk), wn, e)
						}
					case "rsv":
						buf, e := bw.Reserve(len(chunk))
						if e != nil || len(buf) != len(chunk) {
							w.fail("C06.write", "Reserve(%d) returned %d bytes, %v", len(chunk), len(buf), e)
						} else {
							copy(buf, chunk)
						}
					case "byte":
						if e := bw.WriteByte(chunk[0]); e != nil {
							w.fail("C06.write", "WriteByte: %v", e)
						}
					case "str":
						if e := bw.WriteString(string(chunk)); e != nil {
							w.fail("C06.write", "WriteString: %v", e)
						}
					}
					if simrt.Failed() {
						es.inCall[0]--
						return
					}
				}
				if w.on("C06") && bw.Len() != n {
					w.fail("C06.writer_len", "BufferWriter.Len() = %d after writing %d bytes", bw.Len(), n)
				}
				err = st.Flush(false)
			}
			es.inCall[0]--
			d.wInFlush = false
			now := simrt.Now()
			simrt.Event("W s%d d%d msg#%d done err=%v fallback=%v", ss.idx, dir, d.msgIdx-1, err, st.inFallbackState)
			if err == ErrConnectionWriteTimeout {
				w.probe("flush_conn_write_timeout")
			}
			if err == ErrTimeout && w.on("C11") {
				if d.wDeadline.IsZero() {
					w.fail("C11.spurious_timeout", "stream %d dir %d: Flush returned a timeout although no write deadline was set", ss.idx, dir)
				} else if time.Now().Before(d.wDeadline) {
					w.fail("C11.early_timeout", "stream %d dir %d: Flush timed out %v before its write deadline", ss.idx, dir, time.Until(d.wDeadline))
				}
			}
			if took := now - flushStart; took > 30*time.Second && w.on("C11") && !w.plan.Faulty {
				w.fail("C11.flush_slow", "stream %d dir %d: Flush took %v (virtual) in a fault-free run", ss.idx, dir, took)
			}
			if err == nil {
				sg.status = 1
				sg.doneAt = now
				d.sureBytes += int64(n)
				if closedBefore && w.on("C10") {
					w.fail("C10.flush_after_close", "stream %d dir %d: Flush of %d bytes succeeded after the local Close had returned", ss.idx, dir, n)
				}
				if eofBefore && w.on("C10") {
					w.fail("C10.send_after_eof", "stream %d dir %d: Flush of %d bytes succeeded although this end had already observed end-of-stream", ss.idx, dir, n)
				}
				if st.inFallbackState {
					w.probe("fallback_write")
					es.usedFallback = true
					d.usedFallback = true
				} else {
					if d.usedFallback {
						d.shmAfterFallback = true
					}
					d.usedShm = true
				}
				if d.usedFallback && d.usedShm {
					w.probe("transport_switch")
				}
			} else {
				sg.status = 2
				w.probe("flush_failed")
				if err == ErrQueueFull {
					w.probe("flush_queue_full")
				}
				if !w.isClosedErr(err) && !w.plan.Faulty && err != ErrQueueFull && err != ErrTimeout {
					w.fail("C06.flush_error", "stream %d dir %d: Flush failed with %v in a fault-free run", ss.idx, dir, err)
				}
			}
		}
	}
}

func (w *sessWorld) reader(ss *sessStream, dir int) {
	_, rend := endsOf(dir)
	es := ss.ends[rend]
	es.g[1] = simrt.Cur()
	d := ss.dirs[dir]
	defer func() { d.readerDone = true }()
	ops := ss.plan.C2S.R
	if dir == 1 {
		ops = ss.plan.S2C.R
	}
	st := es.stream
	br := st.BufferReader()
	for _, op := range ops {
		if simrt.Failed() {
			return
		}
		simrt.Yield(simrt.KHarness, "rop")
		w.ops++
		w.checkPins()
		switch op.K {
		case "sleep":
			simrt.Sleep(time.Duration(op.N) * time.Millisecond)
		case "deadline":
			d.rDeadline = time.Now().Add(time.Duration(op.N) * time.Millisecond)
			otherW := ss.plan.S2C.W
			if dir == 1 {
				otherW = ss.plan.C2S.W
			}
			if len(otherW) == 0 && op.N%2 == 0 {
				_ = st.SetDeadline(d.rDeadline) // nobody writes on this end: both halves at once
				w.probe("set_deadline_both")
			} else {
				_ = st.SetReadDeadline(d.rDeadline)
			}
		case "close":
			w.closeEnd(ss, rend, 1)
		case "release":
			w.beforeCall(es)
			es.inCall[1]++
			ss.pins[dir] = nil // given up when the call starts: it recycles slice by slice and can be descheduled in between
			br.ReleasePreviousRead()
			es.inCall[1]--
		case "len":
			w.checkLen(ss, dir, br.Len())
		case "drain":
			for k := 0; k < 200; k++ {
				stop := w.readOp(ss, dir, rOp{K: "read", N: 4096})
				if stop || simrt.Failed() {
					break
				}
			}
		default:
			if stop := w.readOp(ss, dir, op); stop {
				// after an error the remaining ops still run when they are closes/releases
				continue
			}
		}
	}
}

func (w *sessWorld) checkLen(ss *sessStream, dir int, l int) {
	d := ss.dirs[dir]
	if !w.on("C06") {
		return
	}
	if l < 0 || int64(l) > d.allBytes-d.consumed {
		w.fail("C06.len", "stream %d dir %d: Len() = %d but at most %d bytes were written and not yet consumed", ss.idx, dir, l, d.allBytes-d.consumed)
	}
}

// readOp executes one consuming/peeking reader call with its oracle. Returns true when the stream is finished for this reader.
func (w *sessWorld) readOp(ss *sessStream, dir int, op rOp) (stop bool) {
	_, rend := endsOf(dir)
	es := ss.ends[rend]
	d := ss.dirs[dir]
	st := es.stream
	br := st.BufferReader()
	n := op.N
	if n <= 0 {
		n = 1
	}
	w.beforeCall(es)
	w.tagThread(ss, dir)
	lenBefore := br.Len()
	closedBefore := es.closeReturned
	d.rInCall, d.rCallKind, d.rBlockedNeed, d.rBlockedSince = true, op.K, n, simrt.Now()
	if op.K == "read" || op.K == "rbyte" {
		d.rBlockedNeed = 1
	}
	es.inCall[1]++
	var (
		got []byte
		cnt int
		err error
		zc  bool // zero-copy result that must stay valid until release
	)
	switch op.K {
	case "rb":
		got, err = br.ReadBytes(n)
		cnt, zc = len(got), true
	case "peek":
		got, err = br.Peek(n)
		cnt, zc = len(got), true
	case "discard":
		cnt, err = br.Discard(n)
	case "rbyte":
		var b byte
		b, err = br.ReadByte()
		if err == nil {
			got, cnt = []byte{b}, 1
		}
	case "rstr":
		var s string
		s, err = br.ReadString(n)
		got, cnt = []byte(s), len(s)
	case "read":
		buf := make([]byte, n)
		cnt, err = st.Read(buf)
		got = buf[:cnt]
	}
	es.inCall[1]--
	d.rInCall = false
	now := simrt.Now()
	simrt.Event("R s%d d%d %s(%d) -> %d bytes err=%v consumed=%d len=%d", ss.idx, dir, op.K, n, cnt, err, d.consumed, br.Len())
	if err != nil {
		switch {
		case err == ErrTimeout:
			w.probe("read_timeout")
			if w.on("C11") {
				if d.rDeadline.IsZero() {
					w.fail("C11.spurious_timeout", "stream %d dir %d: %s returned a timeout although no deadline was set", ss.idx, dir, op.K)
				} else if time.Now().Before(d.rDeadline) {
					w.fail("C11.early_timeout", "stream %d dir %d: %s timed out %v before its deadline", ss.idx, dir, op.K, time.Until(d.rDeadline))
				} else if time.Since(d.rDeadline) > time.Second && d.rBlockedSince < now-time.Second && !w.stallEnd[rend].After(d.rDeadline) {
					// (a reader whose process was off the CPU across the deadline legitimately returns late)
					w.fail("C11.late_timeout", "stream %d dir %d: %s returned its timeout %v after the deadline", ss.idx, dir, op.K, time.Since(d.rDeadline))
				}
			}
			return false
		case err == ErrEndOfStream || err == ErrStreamClosed:
			if err == ErrEndOfStream && !es.closeInvoked {
				es.sawEOF = true
				d.readerEOF = true
				w.probe("eof")
				// C07: told "ended" only after every byte flushed successfully before the peer's Close was offered
				if w.on("C07") {
					if !d.closeInvoked {
						if !w.sessionDead() {
							w.fail("C07.eof_without_close", "stream %d dir %d: reader got end-of-stream but the peer never called Close", ss.idx, dir)
						}
					} else {
						offered := d.consumed + int64(br.Len())
						need := int64(0)
						for i := 0; i < d.closeSegMark && i < len(d.m.segs); i++ {
							if d.m.segs[i].status == 1 {
								need += int64(len(d.m.segs[i].data))
							}
						}
						// bytes of maybe-messages the reader consumed count as offered too, so compare on sure bytes only when nothing is ambiguous
						if offered < need && !w.hasMaybeBefore(d, d.closeSegMark) {
							w.failTagged("C07.close_overtook_data", w.ctxTags(ss, dir), "stream %d dir %d: reader was told the stream ended after being offered %d bytes, but %d bytes had been flushed successfully before the peer called Close", ss.idx, dir, offered, need)
						}
					}
				}
			}
			return true
		default:
			if !w.sessionDead() && w.on("C06", "C07", "C11") {
				w.fail("C06.read_error", "stream %d dir %d: %s(%d) failed with unexpected error %v", ss.idx, dir, op.K, n, err)
			}
			return true
		}
	}
	// success
	if closedBefore && cnt > 0 {
		w.failTagged("C10.read_after_close", w.ctxTags(ss, dir), "stream %d dir %d: %s returned %d bytes after the local Close had returned", ss.idx, dir, op.K, cnt)
		return true
	}
	if es.closeInvoked {
		// the end was closed while this call was in flight: what it returns is not defined by any property
		return true
	}
	switch op.K {
	case "rb", "rstr", "peek":
		if cnt != n && w.on("C06") {
			w.fail("C06.short", "stream %d dir %d: %s(%d) returned %d bytes without error", ss.idx, dir, op.K, n, cnt)
			return true
		}
	case "discard":
		if cnt != n && w.on("C06") {
			w.fail("C06.short", "stream %d dir %d: Discard(%d) skipped %d without error", ss.idx, dir, n, cnt)
			return true
		}
	case "read":
		if (cnt < 1 || cnt > n) && w.on("C06", "C19") {
			w.fail("C19.read_contract", "stream %d dir %d: Read(len %d) returned %d, nil", ss.idx, dir, n, cnt)
			return true
		}
	}
	okData := true
	switch op.K {
	case "peek":
		okData = d.m.peek(got)
	case "discard":
		okData = d.m.skip(cnt)
		d.consumed += int64(cnt)
	default:
		okData = d.m.consume(got)
		d.consumed += int64(cnt)
	}
	if !okData && w.on("C06", "C07", "C20") {
		exp := d.m.expectedNext(len(got))
		fd := firstDiff(got, exp)
		if os.Getenv("VSIM_DEBUG_BYTES") != "" && fd >= 0 {
			hi := fd + 12
			if hi > len(got) {
				hi = len(got)
			}
			eh := hi
			if eh > len(exp) {
				eh = len(exp)
			}
			fmt.Fprintf(os.Stderr, "DEBUG wrong bytes: got[%d:%d]=%x want=%x attribution=%s\n", fd, hi, got[fd:hi], exp[fd:eh], w.attribute(got[fd:hi]))
		}
		w.failTagged(w.dataRule(), w.ctxTags(ss, dir), "stream %d dir %d: %s(%d) returned bytes that are not the next bytes the peer flushed on this stream (first difference at byte %d of %d, absolute position %d)", ss.idx, dir, op.K, n, fd, len(got), d.consumed)
		return true
	}
	if zc && cnt > 0 {
		ss.pins[dir] = append(ss.pins[dir], pinned{b: got, want: append([]byte(nil), got...), what: op.K})
	}
	// Len bookkeeping (C06): a call that did not need to wait changes Len by exactly what it consumed
	if w.on("C06") {
		lenAfter := br.Len()
		if es.closeInvoked {
			// Len() is a scheduling point: the end was closed by another thread between the call and this look at
			// the buffer, which Close empties
			return true
		}
		w.checkLen(ss, dir, lenAfter)
		if lenBefore >= n && op.K != "read" {
			want := lenBefore - cnt
			if op.K == "peek" {
				want = lenBefore
			}
			if lenAfter != want {
				w.fail("C06.len", "stream %d dir %d: Len() was %d, %s(%d) consumed %d, Len() is now %d", ss.idx, dir, lenBefore, op.K, n, cnt, lenAfter)
				return true
			}
		}
	}
	return false
}

// ctxTags computes the discriminator tags of a violation about one stream direction (used to match known findings).
func (w *sessWorld) ctxTags(ss *sessStream, dir int) map[string]string {
	tags := map[string]string{}
	wend, rend := endsOf(dir)
	we, re := ss.ends[wend], ss.ends[rend]
	d := ss.dirs[dir]
	// (the writer's sticky fallback flag is set inside Flush before the data leaves, i.e. before the harness' own
	// bookkeeping after Flush returns: look at it as well)
	usedFallback := d.usedFallback || (we.stream != nil && we.stream.inFallbackState)
	if (usedFallback && (d.usedShm || d.closeInvoked)) || (d.closeWentViaSocket(we) && d.usedShm) {
		tags["transport_switch"] = "yes" // messages (or the close) of this direction travelled through both the queue and the socket
	}
	if w.fallbackFlagCleared(ss, dir) {
		tags["fallback_flag_cleared"] = "yes"
	}
	if re.closeInvoked {
		tags["local_close"] = "yes" // the reading end itself had Close invoked before the failing operation finished
	}
	if we.closedInCallback || re.closedInCallback {
		tags["closer"] = "during_ondata"
	}
	return tags
}

func (w *sessWorld) dataRule() string {
	switch w.own {
	case "C07":
		return "C07.wrong_bytes"
	case "C20":
		return "C20.wrong_bytes"
	}
	return "C06.wrong_bytes"
}

func (w *sessWorld) hasMaybeBefore(d *dirState, mark int) bool {
	for i := 0; i < len(d.m.segs); i++ {
		if d.m.segs[i].status != 1 {
			return true
		}
	}
	return false
}

func (w *sessWorld) sessionDead() bool {
	return w.cli.IsClosed() || w.srv.IsClosed()
}

// ---------------------------------------------------------------------------
// callback mode (C20)

type streamCb struct {
	w  *sessWorld
	ss *sessStream
	k  int
}

func (c *streamCb) OnData(reader BufferReader) {
	w, ss := c.w, c.ss
	es := ss.ends[1]
	d := ss.dirs[0]
	es.inOnData++
	es.cbInvocations++
	defer func() { es.inOnData-- }()
	// the library's callback goroutine: Session.Close waits for it before it releases the session's memory, so a
	// memory fault in this goroutine is not an instance of the recorded teardown race between the event loop and
	// user goroutines (finding F-TEARDOWN excludes it)
	simrt.SetTag("panic_in", "callback_goroutine")
	if es.inOnData > 1 && w.on("C20") {
		w.fail("C20.reentrant", "stream %d: OnData running %d times at once", ss.idx, es.inOnData)
		return
	}
	if es.closeReturned && w.on("C20") {
		es.cbAfterClose++
		if es.closedInCallback && es.cbAfterClose == 1 && simrt.Now()-es.closeRetAt < time.Millisecond {
			// Close was called while the callback goroutine was running and did not wait for it: the goroutine may
			// already be past its "still open?" test and deliver once more, at the same instant (finding
			// F-CLOSEWINDOW). Reported at the end of the run so that it cannot hide anything else; a second
			// invocation, or one at a later time, is reported at once.
			w.lateOnData = fmt.Sprintf("stream %d: OnData invoked once more right after the local Close (called while the callback goroutine was running) had returned", ss.idx)
			return
		}
		w.fail("C20.after_close", "stream %d: OnData invoked after the local Close had returned", ss.idx)
		return
	}
	w.ops++
	w.checkPins()
	l := reader.Len()
	d.rLastLen = l
	if l <= 0 {
		if w.on("C20") {
			w.fail("C20.empty_call", "stream %d: OnData called with no data available", ss.idx)
		}
		return
	}
	op := ss.plan.CbOps[c.k%len(ss.plan.CbOps)]
	c.k++
	var lastErr error
	consume := func(n int) bool {
		got, err := reader.ReadBytes(n)
		lastErr = err
		if err != nil {
			if err == ErrTimeout || w.isClosedErr(err) {
				return false
			}
			w.fail("C20.read_error", "stream %d: ReadBytes(%d) in OnData: %v", ss.idx, n, err)
			return false
		}
		if !d.m.consume(got) {
			if w.on("C20", "C06", "C07") {
				w.failTagged(w.dataRule(), w.ctxTags(ss, 0), "stream %d: bytes offered to OnData are not the next bytes the peer flushed (absolute position %d, %d bytes)", ss.idx, d.consumed, len(got))
			}
			return false
		}
		d.consumed += int64(len(got))
		d.rLastLen = reader.Len()
		ss.pins[0] = nil
		reader.ReleasePreviousRead()
		return true
	}
	switch op.K {
	case "keep":
		// zero-copy read that stays unreleased when OnData returns (released by a later invocation or by Close)
		n := op.N
		if n > l {
			n = l
		}
		if n < 1 {
			n = 1
		}
		got, err := reader.ReadBytes(n)
		if err != nil {
			return
		}
		if !d.m.consume(got) {
			if w.on("C20", "C06", "C07") {
				w.failTagged(w.dataRule(), w.ctxTags(ss, 0), "stream %d: bytes offered to OnData are not the next bytes the peer flushed (absolute position %d, %d bytes)", ss.idx, d.consumed, len(got))
			}
			return
		}
		d.consumed += int64(len(got))
		d.rLastLen = reader.Len()
		if !es.closeInvoked {
			// (once Close has been called on this end - it is deferred while a callback runs - the slices are
			// released whenever the callback goroutine gets to it)
			ss.pins[0] = append(ss.pins[0], pinned{b: got, want: append([]byte(nil), got...), what: "ReadBytes in an earlier OnData"})
			w.probe("cb_keep")
		}
	case "reply":
		got, err := reader.ReadBytes(l)
		if err != nil {
			return
		}
		if !d.m.consume(got) {
			if w.on("C20", "C06", "C07") {
				w.failTagged(w.dataRule(), w.ctxTags(ss, 0), "stream %d: bytes offered to OnData are not the next bytes the peer flushed (absolute position %d, %d bytes)", ss.idx, d.consumed, len(got))
			}
			return
		}
		d.consumed += int64(len(got))
		ss.pins[0] = nil
		es.stream.ReleaseReadAndReuse()
		d.rLastLen = es.stream.BufferReader().Len()
		// the answer, written from inside the callback
		d1 := ss.dirs[1]
		n := op.N
		data := msgBytes(ss.idx, 1, d1.msgIdx, n)
		d1.msgIdx++
		sg := &seg{data: data, status: 0}
		d1.m.segs = append(d1.m.segs, sg)
		d1.allBytes += int64(n)
		bw := es.stream.BufferWriter()
		if wn, e := bw.WriteBytes(data); e != nil || wn != n {
			w.fail("C06.write", "WriteBytes(%d) in OnData returned %d, %v", n, wn, e)
			return
		}
		es.inCall[0]++
		err = es.stream.Flush(false)
		es.inCall[0]--
		if err == nil {
			sg.status, sg.doneAt = 1, simrt.Now()
			d1.sureBytes += int64(n)
			if es.stream.inFallbackState {
				es.usedFallback, d1.usedFallback = true, true
			} else {
				d1.usedShm = true
			}
		} else {
			sg.status = 2
		}
		w.probe("cb_reply")
	case "all":
		consume(l)
	case "part":
		n := op.N
		if n > l {
			n = l
		}
		if n < 1 {
			n = 1
		}
		consume(n)
	case "need":
		// wait inside the callback for a full record (bounded by a deadline so that the callback cannot pin the stream forever)
		n := op.N
		if n < 1 {
			n = 1
		}
		_ = es.stream.SetReadDeadline(time.Now().Add(6 * time.Second))
		if !consume(n) {
			// a read waiting inside OnData is released by the peer's close, not only by its own deadline
			if lastErr == ErrTimeout && d.closeReturned && simrt.Now()-d.closeReturnAt > 2*time.Second && !es.closeInvoked {
				rule := "C10.reader_not_woken"
				if w.own == "C11" {
					rule = "C11.read_hang"
				} else if w.own == "C20" {
					rule = "C20.reader_not_woken"
				}
				w.failTagged(rule, w.ctxTags(ss, 0), "stream %d: ReadBytes(%d) inside OnData only returned on its own deadline although the peer's Close had returned %v earlier", ss.idx, n, simrt.Now()-d.closeReturnAt)
				return
			}
			// ... and by the arrival of the bytes it waits for: they were all flushed successfully (no failed or
			// unfinished flush before them) more than 3 s before the wait gave up
			if lastErr == ErrTimeout && !es.closeInvoked && !w.sessionDead() {
				if at, ok := d.sureSince(d.consumed + int64(n)); ok && simrt.Now()-at > 3*time.Second {
					rule := "C20.not_offered"
					if w.own == "C11" {
						rule = "C11.read_hang"
					}
					if w.on("C20", "C11") {
						w.failTagged(rule, w.ctxTags(ss, 0), "stream %d: ReadBytes(%d) inside OnData timed out although the bytes it waited for had all been flushed %v earlier", ss.idx, n, simrt.Now()-at)
						return
					}
				}
			}
			_ = es.stream.SetReadDeadline(time.Time{})
			if reader.Len() > 0 {
				consume(reader.Len())
			}
		}
		_ = es.stream.SetReadDeadline(time.Time{})
	case "sleep":
		simrt.Sleep(time.Duration(op.N) * time.Millisecond)
		consume(l)
	case "close":
		consume(1)
		w.probe("close_in_callback")
		w.closeEnd(ss, 1, 2)
	}
}

func (c *streamCb) OnLocalClose()  { c.ss.ends[1].cbLocal++ }
func (c *streamCb) OnRemoteClose() { c.ss.ends[1].cbRemote++ }

// ---------------------------------------------------------------------------
// neighbour / chaos

func (w *sessWorld) bmOf(side int) *bufferManager {
	if side == 0 {
		return w.cli.bufferManager
	}
	return w.srv.bufferManager
}

func (w *sessWorld) releaseHogs() {
	for side := 0; side < 2; side++ {
		for _, b := range w.hogs[side] {
			w.bmOf(side).recycleBuffer(b)
		}
		w.hogs[side] = nil
	}
}

func (w *sessWorld) neighbor(ops []nbOp) {
	for _, op := range ops {
		if simrt.Failed() {
			return
		}
		simrt.Yield(simrt.KHarness, "nbop")
		switch op.K {
		case "sleep":
			simrt.Sleep(time.Duration(op.N) * time.Millisecond)
		case "hog":
			// legitimately hold all but N buffers of every class (as other streams / the peer could)
			bm := w.bmOf(op.Side)
			for _, l := range bm.lists {
				for l.remain() > op.N {
					b, err := l.pop()
					if err != nil {
						break
					}
					w.hogs[op.Side] = append(w.hogs[op.Side], b)
				}
			}
			simrt.Count("fault.shm_exhaustion_window", 1)
		case "release":
			w.releaseHogs()
		case "scribble":
			bm := w.bmOf(op.Side)
			// every buffer that is free right now gets its payload overwritten in place (the free lists are FIFO, so
			// popping a few buffers would never reach a slice that was recycled a moment ago): whoever still looks at
			// a prematurely recycled slice sees 0xA5
			for _, l := range bm.lists {
				slot := *l.capPerBuffer + bufferHeaderSize
				off := *l.head
				for n := int32(0); n < *l.size+1 && off%slot == 0 && off/slot < *l.cap; n++ {
					hdr := bufferHeader(l.bufferRegion[off : off+bufferHeaderSize])
					if hdr.isInUsed() {
						break
					}
					pl := l.bufferRegion[off+bufferHeaderSize : off+slot]
					for j := range pl {
						pl[j] = 0xA5
					}
					if !hdr.hasNext() {
						break
					}
					off = hdr.nextBufferOffset()
				}
			}
			for i := 0; i < op.N; i++ {
				var got []*bufferSlice
				for _, l := range bm.lists {
					if b, err := l.pop(); err == nil {
						for j := range b.data {
							b.data[j] = 0xA5
						}
						got = append(got, b)
					}
				}
				for _, b := range got {
					bm.recycleBuffer(b)
				}
			}
			simrt.Count("fault.scribble", int64(op.N))
		case "stall":
			pr := w.pc
			if op.Side == 1 {
				pr = w.ps
			}
			w.sim.Stall(pr, time.Duration(op.N)*time.Millisecond)
			w.stallEnd[op.Side%2] = time.Now().Add(time.Duration(op.N) * time.Millisecond)
			simrt.Count("fault.process_stall", 1)
		}
	}
}

// ---------------------------------------------------------------------------
// oracles at quiescence

func (w *sessWorld) quiescenceOracles() {
	now := simrt.Now()
	// C05: no element stranded in a queue whose consumer is idle
	if w.on("C05") && !w.sessionDead() {
		for i, s := range []*Session{w.cli, w.srv} {
			if n := s.queueManager.recvQueue.size(); n != 0 {
				w.fail("C05.stranded", "session %d: every notification has been delivered and handled, the consumer is idle, but its receive queue still holds %d element(s)", i, n)
				return
			}
		}
	}
	for _, ss := range w.streams {
		for dir := 0; dir < 2; dir++ {
			d := ss.dirs[dir]
			wend, rend := endsOf(dir)
			res := ss.ends[rend]
			_ = wend
			// a writer still inside Flush/Write long after every bound the library has for it (queue-full retries
			// 100 ms, the write deadline, ConnectionWriteTimeout twice) and after every injected stall has ended
			if d.wInFlush && now-d.wFlushSince > 60*time.Second+3*w.cli.config.ConnectionWriteTimeout && w.on("C11") && !w.sessionDead() {
				w.failTagged("C11.flush_hang", w.ctxTags(ss, dir), "stream %d dir %d: Flush has been blocked for %v (ConnectionWriteTimeout %v; everything has been quiet for 10 s)", ss.idx, dir, now-d.wFlushSince, w.cli.config.ConnectionWriteTimeout)
				return
			}
			// a reader still inside a call although what it waits for has happened long ago
			if d.rInCall && now-d.rBlockedSince > 5*time.Second {
				avail := d.sureBytes - d.consumed
				switch {
				case int64(d.rBlockedNeed) <= avail && !w.hasMaybeBefore(d, 0):
					if w.on("C05", "C11", "C07") {
						rule := "C11.read_hang"
						if w.own == "C05" {
							rule = "C05.stranded"
						} else if w.own == "C07" {
							rule = "C07.not_delivered"
						}
						w.failTagged(rule, w.ctxTags(ss, dir), "stream %d dir %d: %s(%d) is still blocked although %d bytes were flushed successfully and not yet consumed (everything has been quiet for 10 s)", ss.idx, dir, d.rCallKind, d.rBlockedNeed, avail)
						return
					}
				case d.closeReturned && now-d.closeReturnAt > 5*time.Second && !res.closeInvoked:
					if w.on("C10", "C11") {
						rule := "C11.read_hang"
						if w.own == "C10" {
							rule = "C10.peer_not_notified"
						}
						w.failTagged(rule, w.ctxTags(ss, dir), "stream %d dir %d: the peer's Close returned %v ago but %s(%d) is still blocked (no end-of-stream)", ss.idx, dir, now-d.closeReturnAt, d.rCallKind, d.rBlockedNeed)
						return
					}
				case !d.rDeadline.IsZero() && time.Since(d.rDeadline) > 5*time.Second && d.rCallKind != "":
					if w.on("C11") {
						w.fail("C11.deadline_ignored", "stream %d dir %d: %s(%d) is still blocked %v after its read deadline", ss.idx, dir, d.rCallKind, d.rBlockedNeed, time.Since(d.rDeadline))
						return
					}
				}
			}
		}
		// C20: in callback mode every flushed byte has been offered without further traffic
		es := ss.ends[1]
		d := ss.dirs[0]
		if es.hasCb && w.on("C20") && !es.closeInvoked && !ss.ends[0].closeInvoked && es.stream != nil && es.stream.IsOpen() && !w.hasMaybeBefore(d, 0) && es.inOnData == 0 {
			if d.consumed+int64(d.rLastLen) < d.sureBytes && d.consumed < d.sureBytes {
				pend := 0
				w.failTagged("C20.not_offered", w.ctxTags(ss, 0), "stream %d: %d bytes were flushed, OnData consumed %d and saw %d more, the rest was never offered although everything has been quiet for 10 s (pending=%d)", ss.idx, d.sureBytes, d.consumed, d.rLastLen, pend)
				return
			}
		}
	}
}

func (w *sessWorld) closeTags(ss *sessStream, closerEnd int) map[string]string {
	tags := map[string]string{}
	es := ss.ends[closerEnd]
	if es.hasCb && es.closedInCallback {
		tags["closer"] = "during_ondata"
	}
	if es.fallbackBeforeClose {
		tags["fallback_before_close"] = "yes"
	}
	return tags
}

// checkTap runs an independent reference parser over the bytes that crossed each control connection: whole
// events only (writes of concurrent senders never interleave inside an event).
func (w *sessWorld) checkTap() {
	names := []string{"server->client", "client->server"}
	for i := 0; i < 2; i++ {
		b := w.tap[i]
		off, n := 0, 0
		for off < len(b) {
			if len(b)-off < headerSize {
				w.fail("C18.interleaved", "%s: %d stray bytes at offset %d after %d whole events", names[i], len(b)-off, off, n)
				return
			}
			l := int(binary.BigEndian.Uint32(b[off : off+4]))
			magic := binary.BigEndian.Uint16(b[off+4 : off+6])
			ver, typ := b[off+6], b[off+7]
			bad := ""
			switch {
			case magic != magicNumber:
				bad = "bad magic"
			case ver != 2 && ver != 3:
				bad = "bad version"
			case typ > uint8(maxEventType):
				bad = "bad type"
			case l < headerSize || off+l > len(b):
				bad = "length does not fit"
			case eventType(typ) == typePolling && l != headerSize:
				bad = "polling event with a body"
			case eventType(typ) == typeStreamClose && l != headerSize+4:
				bad = "close event of wrong length"
			case eventType(typ) == typeFallbackData && l < headerSize+8:
				bad = "fallback event too short"
			}
			if bad != "" {
				w.fail("C18.interleaved", "%s: after %d whole events the bytes at offset %d are not an event (%s: len=%d magic=%#x ver=%d type=%d): concurrent writers interleaved or bytes were lost/duplicated", names[i], n, off, bad, l, magic, ver, typ)
				return
			}
			off += l
			n++
		}
		w.probes["tap_events"] += int64(n)
	}
}

func (w *sessWorld) finalOracles() {
	defer func() {
		if w.lateOnData != "" && !simrt.Failed() && w.on("C20") {
			w.failTagged("C20.after_close", map[string]string{"closer": "during_ondata", "late_invocation": "single_committed"}, "%s", w.lateOnData)
		}
	}()
	if w.on("C18") {
		w.checkTap()
		if simrt.Failed() {
			return
		}
	}
	if w.sessionDead() {
		if w.crashed {
			// the planned fault fired while this very check was being evaluated (IsClosed is a scheduling point)
			w.survivorOracles()
			return
		}
		if w.on("C14") {
			w.fail("C14.session_died", "a session closed although no fault was injected")
		}
		return
	}
	// C10: table consistency and callbacks
	if w.on("C10") {
		if n := w.cli.GetActiveStreamCount(); n != 0 {
			w.fail("C10.active_count", "client session still counts %d active streams after every stream was closed locally", n)
			return
		}
		if n := w.srv.GetActiveStreamCount(); n != 0 {
			w.fail("C10.active_count", "server session still counts %d active streams after every stream was closed locally", n)
			return
		}
		for _, ss := range w.streams {
			es := ss.ends[1]
			if es.hasCb && es.stream != nil {
				if es.cbLocal+es.cbRemote != 1 {
					tags := map[string]string{}
					if es.closedInCallback {
						tags["closer"] = "during_ondata"
					}
					w.failTagged("C10.close_callbacks", tags, "stream %d: callback end was told about its closure %d times (OnLocalClose %d, OnRemoteClose %d), expected exactly once", ss.idx, es.cbLocal+es.cbRemote, es.cbLocal, es.cbRemote)
					return
				}
			}
			for e := 0; e < 2; e++ {
				if st := ss.ends[e].stream; st != nil && st.IsOpen() {
					w.fail("C10.still_open", "stream %d end %d is open after both ends were closed", ss.idx, e)
					return
				}
			}
		}
	}
	// C09 / C08: every buffer is back
	if w.on("C09", "C08") {
		if n := shmInUse(w.cli.bufferManager); n != 0 {
			rule := "C09.leak"
			if w.own == "C08" {
				rule = "C08.not_returned"
			}
			detail := ""
			for i, l := range w.cli.bufferManager.lists {
				detail += fmt.Sprintf(" class%d(cap %d): %d of %d free;", i, *l.capPerBuffer, *l.size, *l.cap)
			}
			w.failTagged(rule, w.leakTags(), "every stream is closed on both ends and everything settled, but %d shared-memory buffers are still allocated:%s", n, detail)
			return
		}
		_, _, smm := w.cli.GetMetrics()
		if smm.AllInUsedShareMemoryInBytes != 0 {
			w.fail("C09.leak", "GetMetrics reports %d bytes of shared memory in use after everything was closed", smm.AllInUsedShareMemoryInBytes)
			return
		}
	}
}

func (w *sessWorld) leakTags() map[string]string {
	tags := map[string]string{}
	// discriminator for the pinned-list finding: some reader closed (or was closed) while holding read-but-unreleased slices
	for _, ss := range w.streams {
		if ss.pinnedAtClose {
			tags["pinned_at_close"] = "yes"
		}
	}
	return tags
}

// Base / Sweep (C14 thorough): the same plan and seed with each fault kind placed over the steps of the base run.
func (sessScenario) Base(plan interface{}) interface{} {
	b, _ := json.Marshal(plan)
	var q sessPlan
	_ = json.Unmarshal(b, &q)
	q.Crash = nil
	return &q
}

func (sessScenario) Sweep(plan interface{}, base *RunRecord) []interface{} {
	est := base.Counters["sess.est_step"]
	total := base.Steps
	if est <= 0 || total <= est {
		return nil
	}
	var steps []int64
	for i := int64(1); i <= 6; i++ {
		steps = append(steps, -(est * i / 7)) // during the handshake
	}
	span := total - est
	for i := int64(0); i < 14; i++ {
		steps = append(steps, span*i/14)
	}
	var out []interface{}
	for _, kind := range []string{"kill_client", "kill_server", "sever", "sever_rst", "close_client", "close_server", "close_both"} {
		for _, at := range steps {
			if at == 0 && kind != "sever" {
				continue
			}
			b, _ := json.Marshal(plan)
			var q sessPlan
			_ = json.Unmarshal(b, &q)
			q.Crash = &crashPlan{Kind: kind, AtStep: at, Twice: at%2 == 0, Opener: at%3 == 0}
			out = append(out, &q)
		}
	}
	return out
}

func (sessScenario) Post(plan interface{}, res *simrt.Result, rec *RunRecord) {
	rec.Nontrivial = res.Switches > 200 && res.Counters["sess.ops"] > 3
}
