//go:build verif

package shmipc

// Scenario shmlist (C01, C02): the real free lists of one shared region, seen
// by a creator process (createBufferManager) and a peer process
// (mappingBufferManager on a second mapping of the same memfd), exercised by
// 2-4 threads with every shared-memory access a decision point.

import (
	"bytes"
	"encoding/json"
	"fmt"
	"unsafe"

	"github.com/cloudwego/shmipc-go/simrt"
	"github.com/cloudwego/shmipc-go/simrt/ssys"
	"golang.org/x/sys/unix"
)

type listClass struct {
	Size  uint32 `json:"size"`
	Slots int    `json:"slots"`
}

type listOp struct {
	Kind  string `json:"k"` // alloc | allocn | pop | recycle | chain | stamp | verify
	Size  uint32 `json:"size,omitempty"`
	Class int    `json:"class,omitempty"`
	Which int    `json:"which,omitempty"`
	N     int    `json:"n,omitempty"`
}

type listThread struct {
	Proc int      `json:"proc"` // 0 = creator, 1 = mapper
	Ops  []listOp `json:"ops"`
}

type listPlan struct {
	Sim     SimKnobs     `json:"sim"`
	Classes []listClass  `json:"classes"`
	Threads []listThread `json:"threads"`
}

type shmlistScenario struct{}

func init() { scenarios["shmlist"] = shmlistScenario{} }

func (shmlistScenario) Decode(raw json.RawMessage) (interface{}, error) {
	var p listPlan
	err := json.Unmarshal(raw, &p)
	return &p, err
}

func (shmlistScenario) Knobs(plan interface{}) SimKnobs { return plan.(*listPlan).Sim }

func (shmlistScenario) Gen(r *Rng, tier string, opts map[string]string) interface{} {
	p := &listPlan{Sim: genKnobs(r, true)}
	// classes: total bytes per class chosen so that createBufferManager's percentage arithmetic yields the slot counts
	switch r.Intn(4) {
	case 0, 1, 2:
		p.Classes = []listClass{{Size: uint32(r.Pick(12, 44, 108)), Slots: r.Pick(2, 3, 4, 4, 5, 6, 8)}}
	default:
		// two classes sharing 50/50: 32-byte and 64-byte slots
		k := r.Pick(2, 3, 4)
		p.Classes = []listClass{{Size: 12, Slots: 2 * k}, {Size: 44, Slots: k}}
	}
	if r.Chance(1, 8) {
		// long list: a full cycle is impossible within the program
		p.Classes = []listClass{{Size: 12, Slots: 40}}
	}
	nt := 2 + r.Intn(3)
	bias := r.Intn(4) // 0 mixed, 1 alloc/recycle alternation (ABA-prone), 2 exhaust, 3 chains (multi-slice alloc, chain recycle, header reuse)
	for t := 0; t < nt; t++ {
		th := listThread{Proc: r.Intn(2)}
		if t < 2 {
			th.Proc = t // both processes always present
		}
		nops := 3 + r.Intn(10)
		for i := 0; i < nops; i++ {
			var op listOp
			c := r.Intn(len(p.Classes))
			sz := p.Classes[c].Size
			switch bias {
			case 3:
				switch r.Intn(10) {
				case 0, 1:
					op = listOp{Kind: "allocn", Size: sz*uint32(2+r.Intn(3)) + uint32(r.Intn(5))}
				case 2, 3:
					op = listOp{Kind: "alloc", Size: sz}
				case 4, 5, 6:
					op = listOp{Kind: "chain", N: 2 + r.Intn(4)}
				case 7:
					op = listOp{Kind: "reset", Which: r.Intn(4)}
				case 8:
					op = listOp{Kind: "recycle", Which: r.Intn(4)}
				default:
					op = listOp{Kind: "verify"}
				}
			case 1:
				switch r.Intn(8) {
				case 0, 1, 2:
					op = listOp{Kind: "alloc", Size: sz - uint32(r.Intn(3))}
				case 3:
					op = listOp{Kind: "pop", Class: c}
				case 4, 5, 6:
					op = listOp{Kind: "recycle", Which: r.Intn(4)}
				default:
					op = listOp{Kind: "verify"}
				}
			case 2:
				switch r.Intn(8) {
				case 0, 1, 2, 3:
					op = listOp{Kind: "alloc", Size: sz}
				case 4:
					op = listOp{Kind: "allocn", Size: sz * uint32(1+r.Intn(3))}
				case 5:
					op = listOp{Kind: "recycle", Which: r.Intn(4)}
				case 6:
					op = listOp{Kind: "chain", N: 2 + r.Intn(3)}
				default:
					op = listOp{Kind: "stamp", Which: r.Intn(4)}
				}
			default:
				switch r.Intn(12) {
				case 0, 1, 2:
					op = listOp{Kind: "alloc", Size: uint32(1 + r.Intn(int(sz)))}
				case 3:
					op = listOp{Kind: "alloc", Size: sz + 1} // larger than the class: next class or failure
				case 4:
					op = listOp{Kind: "allocn", Size: sz*uint32(1+r.Intn(3)) + uint32(r.Intn(5))}
				case 5:
					op = listOp{Kind: "pop", Class: c}
				case 6, 7, 8:
					op = listOp{Kind: "recycle", Which: r.Intn(4)}
				case 9:
					op = listOp{Kind: "chain", N: 2 + r.Intn(3)}
				case 10:
					if r.Chance(1, 2) {
						op = listOp{Kind: "reset", Which: r.Intn(4)}
					} else {
						op = listOp{Kind: "stamp", Which: r.Intn(4)}
					}
				default:
					op = listOp{Kind: "verify"}
				}
			}
			th.Ops = append(th.Ops, op)
		}
		p.Threads = append(p.Threads, th)
	}
	return p
}

func (shmlistScenario) Shrink(plan interface{}) []interface{} {
	p := plan.(*listPlan)
	var out []interface{}
	clone := func() *listPlan {
		b, _ := json.Marshal(p)
		var q listPlan
		_ = json.Unmarshal(b, &q)
		return &q
	}
	// drop a thread
	if len(p.Threads) > 2 {
		for i := range p.Threads {
			q := clone()
			q.Threads = append(q.Threads[:i], q.Threads[i+1:]...)
			out = append(out, q)
		}
	}
	// drop an op
	for i := range p.Threads {
		for j := range p.Threads[i].Ops {
			q := clone()
			q.Threads[i].Ops = append(q.Threads[i].Ops[:j], q.Threads[i].Ops[j+1:]...)
			out = append(out, q)
		}
	}
	// simplify ops
	for i := range p.Threads {
		for j, op := range p.Threads[i].Ops {
			if op.Kind == "allocn" || op.Kind == "chain" || op.Kind == "stamp" || op.Kind == "reset" {
				q := clone()
				if op.Kind == "chain" {
					q.Threads[i].Ops[j] = listOp{Kind: "recycle", Which: 0}
				} else if op.Kind == "allocn" {
					q.Threads[i].Ops[j] = listOp{Kind: "alloc", Size: p.Classes[0].Size}
				} else {
					q.Threads[i].Ops[j] = listOp{Kind: "verify"}
				}
				out = append(out, q)
			}
		}
	}
	// fewer slots
	for c := range p.Classes {
		if p.Classes[c].Slots > 2 && len(p.Classes) == 1 {
			q := clone()
			q.Classes[c].Slots--
			out = append(out, q)
		}
	}
	if p.Sim.PointMean != 0 {
		q := clone()
		q.Sim.PointMean = 0
		out = append(out, q)
	}
	return out
}

// heldBuf is the oracle's record of a buffer some thread currently owns.
type heldBuf struct {
	slice  *bufferSlice
	off    uint32 // offset of the header in the shared region
	cap    uint32
	class  int
	owner  int
	header [bufferHeaderSize]byte
	data   []byte
	tag    string
}

type listWorld struct {
	plan    *listPlan
	sim     *simrt.Sim
	memA    []byte
	memB    []byte
	bm      [2]*bufferManager
	held    map[uint32]*heldBuf // by header offset in region
	inOp    int
	headKey []uintptr
	ops     int64
	fails   int64
	probes  map[string]int64
	own     string
	opsDone chan int      // C01: every thread reports the end of its program here ...
	drained chan struct{} // ... and waits for the drain before it gives its buffers back
}

func (w *listWorld) classOf(off uint32) int {
	for i, l := range w.bm[0].lists {
		start := l.bufferRegionOffsetInShm
		if off >= start && off < start+uint32(len(l.bufferRegion)) {
			return i
		}
	}
	return -1
}

func (w *listWorld) abaTag(class int) map[string]string {
	tags := map[string]string{}
	if class >= 0 && class < len(w.headKey) {
		for _, e := range w.sim.ABAs {
			if e.Addr == w.headKey[class] {
				tags["aba_on"] = "bufferList.head"
			}
		}
	}
	return tags
}

func (w *listWorld) fail(rule string, class int, format string, args ...interface{}) {
	simrt.FailTagged(rule, w.abaTag(class), format, args...)
}

// acquired checks a buffer returned by the allocator (C01 i) and records it as held.
func (w *listWorld) acquired(tid int, s *bufferSlice, via string) *heldBuf {
	off := s.offsetInShm
	class := w.classOf(off)
	if class < 0 {
		w.fail("C01.geometry", -1, "thread %d %s returned offset %d outside every size-class region", tid, via, off)
		return nil
	}
	l := w.bm[0].lists[class]
	slot := *l.capPerBuffer + bufferHeaderSize
	rel := off - l.bufferRegionOffsetInShm
	if rel%slot != 0 || rel/slot >= *l.cap {
		w.fail("C01.geometry", class, "thread %d %s returned offset %d not at a slot boundary of class %d (slot %d)", tid, via, off, class, slot)
		return nil
	}
	if s.cap != *l.capPerBuffer || uint32(len(s.data)) != s.cap || uint32(cap(s.data)) < s.cap {
		w.fail("C01.geometry", class, "thread %d %s returned buffer with cap %d len(data) %d, class capacity %d", tid, via, s.cap, len(s.data), *l.capPerBuffer)
		return nil
	}
	if other, dup := w.held[off]; dup {
		w.fail("C01.double_owner", class, "thread %d %s obtained buffer at offset %d which thread %d still holds (%s)", tid, via, off, other.owner, other.tag)
		return nil
	}
	h := &heldBuf{slice: s, off: off, cap: s.cap, class: class, owner: tid, tag: via}
	w.held[off] = h
	w.snapshot(h)
	return h
}

// drain pops every size class until it reports exhaustion and checks each buffer like any other allocation.
func (w *listWorld) drain(bm *bufferManager) {
	var got []*heldBuf
	for c, l := range bm.lists {
		for n := 0; n <= int(*l.cap); n++ {
			var s *bufferSlice
			var err error
			w.inOp++
			crash := func() (p interface{}) {
				defer func() { p = recover() }()
				s, err = l.pop()
				return nil
			}()
			if crash != nil {
				w.inOp--
				w.fail("C01.geometry", c, "drain: pop on class %d panicked (%v): the free chain leads outside the slots of the class", c, crash)
				return
			}
			if err != nil {
				w.inOp--
				break
			}
			h := w.acquired(1000, s, "drain pop")
			w.inOp--
			if h == nil {
				return
			}
			got = append(got, h)
			w.probes["drain_pop"]++
		}
	}
	for _, h := range got {
		if !w.verify(h, "after drain") {
			return
		}
		delete(w.held, h.off)
		w.inOp++
		bm.recycleBuffer(h.slice)
		w.inOp--
	}
}

func (w *listWorld) region(h *heldBuf) []byte {
	// read through the creator's mapping (same memory)
	return w.memA[h.off : h.off+bufferHeaderSize+h.cap]
}

func (w *listWorld) snapshot(h *heldBuf) {
	r := w.region(h)
	copy(h.header[:], r[:bufferHeaderSize])
	h.data = append(h.data[:0], r[bufferHeaderSize:]...)
}

func (w *listWorld) verify(h *heldBuf, when string) bool {
	r := w.region(h)
	if !bytes.Equal(h.header[:], r[:bufferHeaderSize]) {
		w.fail("C01.altered", h.class, "header of buffer at offset %d held by thread %d changed behind its back (%s): was %x now %x", h.off, h.owner, when, h.header[:], r[:bufferHeaderSize])
		return false
	}
	if !bytes.Equal(h.data, r[bufferHeaderSize:]) {
		w.fail("C01.altered", h.class, "payload of buffer at offset %d held by thread %d changed behind its back (%s)", h.off, h.owner, when)
		return false
	}
	return true
}

// walk follows the free chain with the oracle's own loop (terminates on cycles).
func (w *listWorld) walk(class int) (n int, err string) {
	l := w.bm[0].lists[class]
	slot := *l.capPerBuffer + bufferHeaderSize
	seen := map[uint32]bool{}
	off := *l.head
	for {
		if off%slot != 0 || off/slot >= *l.cap {
			return n, fmt.Sprintf("chain reaches offset %d which is not a slot", off)
		}
		if seen[off] {
			return n, fmt.Sprintf("chain revisits slot at %d (cycle)", off)
		}
		seen[off] = true
		n++
		if _, isHeld := w.held[off+l.bufferRegionOffsetInShm]; isHeld {
			return n, fmt.Sprintf("chain contains slot at %d which is held", off)
		}
		hdr := bufferHeader(l.bufferRegion[off : off+bufferHeaderSize])
		if !hdr.hasNext() {
			if off != *l.tail {
				return n, fmt.Sprintf("chain ends at %d but tail is %d", off, *l.tail)
			}
			return n, ""
		}
		off = hdr.nextBufferOffset()
		if n > int(*l.cap)+1 {
			return n, "chain longer than capacity"
		}
	}
}

// afterStep is the C02 conservation invariant, evaluated by the root on a consistent state.
func (w *listWorld) afterStep() {
	if w.bm[0] == nil {
		return
	}
	heldPer := make([]int, len(w.bm[0].lists))
	for _, h := range w.held {
		heldPer[h.class]++
	}
	for c, l := range w.bm[0].lists {
		size := int(*l.size)
		capacity := int(*l.cap)
		if size+heldPer[c] > capacity {
			w.fail("C02.overcommit", c, "class %d: free count %d + held %d exceeds capacity %d", c, size, heldPer[c], capacity)
			return
		}
		if w.inOp == 0 {
			if size != capacity-heldPer[c] {
				w.fail("C02.conservation", c, "class %d: no allocator operation in flight (inOp=%d), free count %d but capacity %d - held %d = %d", c, w.inOp, size, capacity, heldPer[c], capacity-heldPer[c])
				return
			}
			n, e := w.walk(c)
			if e != "" {
				w.fail("C02.chain", c, "class %d: %s", c, e)
				return
			}
			if n != size {
				w.fail("C02.chain", c, "class %d: free count %d but walking the chain visits %d slots", c, size, n)
				return
			}
		}
	}
}

func (shmlistScenario) Run(s *simrt.Sim, plan interface{}, opts map[string]string) (*simrt.Proc, func()) {
	p := plan.(*listPlan)
	ssys.NewKernel(s, ssys.KConfig{})
	pa := s.NewProc("A", 1001)
	pb := s.NewProc("B", 1002)
	w := &listWorld{plan: p, sim: s, held: map[uint32]*heldBuf{}, probes: map[string]int64{}}
	own := opts["property"]
	w.own = own
	s.AfterStep = func() {
		if own == "" || own == "C02" {
			w.afterStep()
		}
	}
	procs := []*simrt.Proc{pa, pb}
	main := func() {
		// region size
		var pairs []*SizePercentPair
		total := uint32(0)
		per := make([]uint32, len(p.Classes))
		for i, c := range p.Classes {
			per[i] = uint32(c.Slots) * (c.Size + bufferHeaderSize)
			total += per[i]
		}
		if len(p.Classes) == 1 {
			pairs = []*SizePercentPair{{Size: p.Classes[0].Size, Percent: 100}}
		} else {
			if per[0] != per[1] {
				simrt.Fail("harness.plan", "two-class plans must split the region evenly")
				return
			}
			pairs = []*SizePercentPair{{Size: p.Classes[0].Size, Percent: 50}, {Size: p.Classes[1].Size, Percent: 50}}
		}
		memSize := int(bufferManagerHeaderSize + bufferListHeaderSize*len(p.Classes) + int(total))
		fd, err := ssys.MemfdCreate("vsim-list", 0)
		if err != nil {
			simrt.Fail("harness.setup", "memfd: %v", err)
			return
		}
		if err := ssys.Ftruncate(fd, int64(memSize)); err != nil {
			simrt.Fail("harness.setup", "ftruncate: %v", err)
			return
		}
		w.memA, err = ssys.Mmap(fd, 0, memSize, unix.PROT_READ|unix.PROT_WRITE, unix.MAP_SHARED)
		if err != nil {
			simrt.Fail("harness.setup", "mmap: %v", err)
			return
		}
		bmA, err := createBufferManager(pairs, "vsim", w.memA, 0)
		if err != nil {
			simrt.Fail("harness.setup", "createBufferManager: %v", err)
			return
		}
		for i, l := range bmA.lists {
			if int(*l.cap) != p.Classes[i].Slots {
				simrt.Fail("harness.plan", "class %d has %d slots, plan wanted %d", i, *l.cap, p.Classes[i].Slots)
				return
			}
		}
		w.bm[0] = bmA
		done := make(chan struct{})
		// the peer process maps the same memory and re-derives the layout
		simrt.GoProc(pb, "mapper", func() {
			defer close(done)
			var err error
			w.memB, err = ssys.Mmap(fd, 0, memSize, unix.PROT_READ|unix.PROT_WRITE, unix.MAP_SHARED)
			if err != nil {
				simrt.Fail("harness.setup", "mmap B: %v", err)
				return
			}
			w.bm[1], err = mappingBufferManager("vsim", w.memB, 0)
			if err != nil {
				simrt.Fail("harness.setup", "mappingBufferManager: %v", err)
			}
		})
		simrt.Recv(done)
		if simrt.Failed() {
			return
		}
		for _, l := range bmA.lists {
			w.headKey = append(w.headKey, simrt.Norm(unsafe.Pointer(l.head)))
		}
		fin := make(chan int, len(p.Threads))
		if own == "" || own == "C01" {
			w.opsDone = make(chan int, len(p.Threads))
			w.drained = make(chan struct{})
		}
		for ti := range p.Threads {
			ti := ti
			th := p.Threads[ti]
			simrt.GoProc(procs[th.Proc%2], fmt.Sprintf("T%d", ti), func() {
				w.thread(ti, th)
				simrt.Send(fin, ti)
			})
		}
		if w.opsDone != nil {
			// C01 witness extension: with every thread still holding what it holds, take everything the free lists
			// offer. A held buffer that an earlier race linked into a free chain is now handed out a second time.
			for range p.Threads {
				simrt.Recv(w.opsDone)
			}
			if !simrt.Failed() {
				w.drain(bmA)
			}
			simrt.Close(w.drained)
		}
		for range p.Threads {
			simrt.Recv(fin)
		}
		if simrt.Failed() {
			return
		}
		// everything has been recycled: full capacity, complete chain (C02 iv)
		if own == "" || own == "C02" {
			for c, l := range bmA.lists {
				if int(*l.size) != int(*l.cap) {
					w.fail("C02.conservation", c, "class %d: all buffers recycled but free count is %d of %d", c, *l.size, *l.cap)
					return
				}
				n, e := w.walk(c)
				if e != "" {
					w.fail("C02.chain", c, "class %d at the end: %s", c, e)
					return
				}
				if n != int(*l.cap) {
					w.fail("C02.chain", c, "class %d at the end: chain visits %d of %d slots", c, n, *l.cap)
					return
				}
			}
		}
	}
	s.OnEnd = append(s.OnEnd, func() {
		s.Counters["list.ops"] = w.ops
		s.Counters["list.failed_allocs"] = w.fails
		for k, v := range w.probes {
			s.Counters["probe."+k] = v
		}
	})
	return pa, main
}

func (w *listWorld) thread(tid int, th listThread) {
	bm := w.bm[th.Proc%2]
	var mine []*heldBuf
	c01 := w.own == "" || w.own == "C01"
	drop := func(i int) *heldBuf {
		h := mine[i]
		mine = append(mine[:i], mine[i+1:]...)
		return h
	}
	release := func(h *heldBuf, when string) bool {
		if c01 && !w.verify(h, when) {
			return false
		}
		delete(w.held, h.off)
		return true
	}
	for _, op := range th.Ops {
		if simrt.Failed() {
			return
		}
		simrt.Yield(simrt.KHarness, "op")
		w.ops++
		switch op.Kind {
		case "alloc":
			w.inOp++
			s, err := bm.allocShmBuffer(op.Size)
			if err != nil {
				w.inOp--
				w.fails++
				continue
			}
			h := w.acquired(tid, s, "allocShmBuffer")
			w.inOp--
			if h != nil {
				mine = append(mine, h)
			} else {
				return
			}
		case "pop":
			if op.Class >= len(bm.lists) {
				continue
			}
			w.inOp++
			s, err := bm.lists[op.Class].pop()
			if err != nil {
				w.inOp--
				w.fails++
				continue
			}
			h := w.acquired(tid, s, "pop")
			w.inOp--
			if h != nil {
				mine = append(mine, h)
			} else {
				return
			}
		case "allocn":
			sl := &sliceList{}
			w.inOp++
			got := bm.allocShmBuffers(sl, op.Size)
			// (no instrumented helper may be called between the operation's return and the
			// registration of its result: fields are read directly)
			sum := int64(0)
			var list []*bufferSlice
			for s := sl.frontSlice; s != nil; s = s.nextSlice {
				sum += int64(s.cap)
				list = append(list, s)
			}
			bad := false
			for _, s := range list {
				s.nextSlice = nil
				if h := w.acquired(tid, s, "allocShmBuffers"); h != nil {
					mine = append(mine, h)
				} else {
					bad = true
					break
				}
			}
			w.inOp--
			if bad {
				return
			}
			if sum != got {
				w.fail("C02.accounting", -1, "allocShmBuffers reported %d bytes but handed out %d", got, sum)
				return
			}
			if got == 0 {
				w.fails++
			}
		case "recycle":
			if len(mine) == 0 {
				continue
			}
			h := drop(op.Which % len(mine))
			if !release(h, "before recycle") {
				return
			}
			w.inOp++
			bm.recycleBuffer(h.slice)
			w.inOp--
		case "chain":
			if len(mine) == 0 {
				continue
			}
			n := op.N
			if n > len(mine) {
				n = len(mine)
			}
			chain := mine[:n]
			mine = append([]*heldBuf(nil), mine[n:]...)
			ok := true
			for _, h := range chain {
				if c01 && !w.verify(h, "before recycle-chain") {
					ok = false
				}
			}
			if !ok {
				return
			}
			// the holder links its buffers as linkedBuffer.done does, then gives the whole chain back
			for i := 0; i+1 < len(chain); i++ {
				chain[i].slice.nextSlice = chain[i+1].slice
			}
			for _, h := range chain {
				h.slice.update()
			}
			for _, h := range chain {
				delete(w.held, h.off)
			}
			w.inOp++
			bm.recycleBuffers(chain[0].slice)
			w.inOp--
		case "stamp":
			if len(mine) == 0 {
				continue
			}
			h := mine[op.Which%len(mine)]
			if c01 && !w.verify(h, "before stamp") {
				return
			}
			s := h.slice
			for i := range s.data {
				s.data[i] = byte(0x40 + tid*16 + i%13)
			}
			s.writeIndex = len(s.data) / 2
			s.update()
			w.snapshot(h)
		case "reset":
			// the holder keeps the buffer for its next message and clears its header (as the read-buffer reuse of a
			// pooled stream does): the buffer stays held and must still be accepted when it is recycled later
			if len(mine) == 0 {
				continue
			}
			h := mine[op.Which%len(mine)]
			if c01 && !w.verify(h, "before reset") {
				return
			}
			h.slice.reset()
			w.snapshot(h)
		case "verify":
			for _, h := range mine {
				if c01 && !w.verify(h, "verify") {
					return
				}
			}
		}
	}
	if w.opsDone != nil {
		simrt.Send(w.opsDone, tid)
		simrt.Recv(w.drained)
	}
	// give everything back
	for len(mine) > 0 {
		if simrt.Failed() {
			return
		}
		simrt.Yield(simrt.KHarness, "final-recycle")
		h := drop(0)
		if !release(h, "before final recycle") {
			return
		}
		w.inOp++
		bm.recycleBuffer(h.slice)
		w.inOp--
	}
}

func (shmlistScenario) Post(plan interface{}, res *simrt.Result, rec *RunRecord) {
	// non-trivial: at least one preemption-induced context switch inside the workload and both processes ran allocator code
	rec.Nontrivial = res.Switches > int64(3+len(plan.(*listPlan).Threads)*2) && res.Counters["list.ops"] > 2
}
