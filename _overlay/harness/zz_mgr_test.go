//go:build verif

package shmipc

// Scenario mgr (C15, C16, C17): a client process running the real
// SessionManager (stream pools, background rebuild, hot restart handling)
// against server processes running the real Listener, all on the simulated
// kernel. Caller threads do GetStream / request / response / PutBack with keyed
// payloads; a director thread injects faults on a timeline: server killed and
// restarted, server-side sessions closed, hot restart (new listener present,
// late or absent), stale epochs, SessionManager.Close.

import (
	"encoding/binary"
	"encoding/json"
	"fmt"
	"os"
	"time"

	"github.com/cloudwego/shmipc-go/simrt"
	"github.com/cloudwego/shmipc-go/simrt/ssys"
)

type usePlan struct {
	ReqLen      int  `json:"req"`
	RespLen     int  `json:"resp"`
	ServerClose bool `json:"server_close,omitempty"` // the server closes the stream after its response
	LeaveUnread int  `json:"leave_unread,omitempty"` // bytes of the response the caller does not read before giving the stream back
	Extra       int  `json:"extra,omitempty"`        // unsolicited bytes the server sends some time after the response
	ExtraDelay  int  `json:"extra_delay_ms,omitempty"`
	NoPutBack   bool `json:"no_putback,omitempty"`   // the caller closes the stream instead of giving it back
	NoRelease   bool `json:"no_release,omitempty"`   // the caller leaves ReleasePreviousRead to PutBack (ReleaseReadAndReuse keeps the last slice for the next write)
	LingerMs    int  `json:"linger_ms,omitempty"`    // pause between the (partial) read and PutBack: unread bytes have arrived by then
	SleepMs     int  `json:"sleep_ms,omitempty"`     // pause before the use
}

type callerPlan struct {
	Uses []usePlan `json:"uses"`
}

type mgrEvent struct {
	AtMs int    `json:"at_ms"`
	Kind string `json:"kind"` // kill_server | start_server | close_server_sessions | new_listener | hot_restart | hot_restart_again | old_close | mgr_close
	N    int    `json:"n,omitempty"`
}

type mgrPlan struct {
	Sim          SimKnobs     `json:"sim"`
	Cfg          sessCfg      `json:"cfg"`
	SessionNum   int          `json:"session_num"`
	MaxStreamNum int          `json:"max_stream_num"`
	RebuildMs    int          `json:"rebuild_ms"`
	Callers      []callerPlan `json:"callers"`
	Events       []mgrEvent   `json:"events,omitempty"`
	TailUses     int          `json:"tail_uses"` // uses issued after the timeline has settled (must succeed when the manager is still alive and a server is up)
}

type mgrScenario struct{}

func init() { scenarios["mgr"] = mgrScenario{} }

func (mgrScenario) Decode(raw json.RawMessage) (interface{}, error) {
	var p mgrPlan
	err := json.Unmarshal(raw, &p)
	return &p, err
}
func (mgrScenario) Knobs(plan interface{}) SimKnobs { return plan.(*mgrPlan).Sim }

func genUse(r *Rng, cfg sessCfg, prop string, lateOK bool) usePlan {
	u := usePlan{ReqLen: anchoredSize(r, cfg), RespLen: anchoredSize(r, cfg)}
	if u.ReqLen > 40000 {
		u.ReqLen = 40000
	}
	if u.RespLen > 40000 {
		u.RespLen = 40000
	}
	if prop == "C15" || r.Chance(1, 4) {
		switch r.Intn(10) {
		case 0:
			u.ServerClose = true
		case 1:
			if lateOK {
				u.LeaveUnread = 1 + r.Intn(u.RespLen)
			}
		case 4, 5:
			// the rest of the response (or all of it) is left unread but has arrived when the stream is given back:
			// the pool must not keep such a stream
			u.LeaveUnread = r.Pick(u.RespLen, u.RespLen, 1+r.Intn(u.RespLen))
			u.LingerMs = r.Pick(5, 50, 500)
		case 2:
			if lateOK {
				u.Extra = 1 + r.Intn(300)
				u.ExtraDelay = r.Pick(0, 1, 20, 200)
			}
		case 3:
			u.NoPutBack = true
		}
	}
	u.NoRelease = r.Chance(1, 2)
	if r.Chance(1, 4) {
		u.SleepMs = r.Pick(1, 10, 100, 700)
	}
	if prop == "C16" || prop == "C17" {
		u.SleepMs = r.Pick(0, 5, 100, 700, 1500, 2500)
	}
	return u
}

func (mgrScenario) Gen(r *Rng, tier string, opts map[string]string) interface{} {
	prop := opts["property"]
	p := &mgrPlan{Sim: genKnobs(r, false), Cfg: genSessCfg(r)}
	p.Sim.HorizonSec = 900
	p.Sim.MaxSteps = 600000
	p.Cfg.QueueCap = uint32(r.Pick(8, 64, 8192))
	p.SessionNum = 1 + r.Intn(3)
	p.MaxStreamNum = r.Pick(1, 2, 4)
	p.RebuildMs = r.Pick(100, 500, 2000, 6000)
	nc := 1 + r.Intn(4)
	lateOK := r.Chance(1, 5) // plans in which a use may leave bytes in flight when the stream is given back (finding F-POOLSTALE)
	for i := 0; i < nc; i++ {
		var c callerPlan
		nu := 1 + r.Intn(6)
		for j := 0; j < nu; j++ {
			c.Uses = append(c.Uses, genUse(r, p.Cfg, prop, lateOK))
		}
		p.Callers = append(p.Callers, c)
	}
	p.TailUses = 1 + r.Intn(3)
	t := 0
	next := func() int { t += r.Pick(0, 1, 5, 50, 300, 1500); return t }
	switch prop {
	case "C17":
		n := 1 + r.Intn(3)
		for i := 0; i < n; i++ {
			switch r.Intn(4) {
			case 0, 1:
				p.Events = append(p.Events, mgrEvent{AtMs: next(), Kind: "kill_server"})
				if r.Chance(4, 5) {
					p.Events = append(p.Events, mgrEvent{AtMs: next(), Kind: "start_server"})
				}
			case 2:
				p.Events = append(p.Events, mgrEvent{AtMs: next(), Kind: "close_server_sessions", N: 1 + r.Intn(3)})
			default:
				if r.Chance(1, 2) {
					p.Events = append(p.Events, mgrEvent{AtMs: next(), Kind: "new_listener"})
					p.Events = append(p.Events, mgrEvent{AtMs: next(), Kind: "hot_restart", N: 1000 + r.Intn(50)})
					p.Events = append(p.Events, mgrEvent{AtMs: t + 3000 + r.Intn(500), Kind: "old_close"})
					t += 4000
				} else {
					p.Events = append(p.Events, mgrEvent{AtMs: next(), Kind: "close_server_sessions", N: 1})
				}
			}
		}
		if r.Chance(1, 3) {
			p.Events = append(p.Events, mgrEvent{AtMs: next(), Kind: "mgr_close"})
		}
		if r.Chance(1, 4) {
			// Close issued at the very instant a rebuild starts (loss + rebuild interval): the fresh session must not survive it
			p.Events = []mgrEvent{{AtMs: 10, Kind: "close_server_sessions", N: 1 + r.Intn(3)}, {AtMs: 10 + p.RebuildMs, Kind: "mgr_close"}}
			if r.Chance(1, 2) {
				p.Events = []mgrEvent{{AtMs: 10, Kind: "kill_server"}, {AtMs: 10 + p.RebuildMs/2, Kind: "start_server"}, {AtMs: 10 + p.RebuildMs, Kind: "mgr_close"}}
			}
		}
	case "C16":
		if r.Chance(1, 5) {
			// two complete hand-overs in the life of one manager
			e1 := 1000 + r.Intn(50)
			p.Events = append(p.Events, mgrEvent{AtMs: next(), Kind: "new_listener"}, mgrEvent{AtMs: next(), Kind: "hot_restart", N: e1}, mgrEvent{AtMs: t + 3500, Kind: "old_close"})
			t += 3500 + r.Pick(100, 1000, 3000)
			p.Events = append(p.Events, mgrEvent{AtMs: t, Kind: "new_listener"}, mgrEvent{AtMs: t + r.Pick(1, 100), Kind: "hot_restart", N: e1 + 1 + r.Intn(5)}, mgrEvent{AtMs: t + 3700, Kind: "old_close"})
			break
		}
		if r.Chance(1, 6) {
			// nothing can be moved: the path is gone when the restart is requested; the replacement shows up later
			p.Events = append(p.Events, mgrEvent{AtMs: next(), Kind: "unlink_socket"}, mgrEvent{AtMs: next(), Kind: "hot_restart", N: 1000 + r.Intn(50)},
				mgrEvent{AtMs: t + 2500 + r.Intn(1500), Kind: "new_listener"}, mgrEvent{AtMs: t + 4500, Kind: "hot_restart_again", N: 2000 + r.Intn(50)}, mgrEvent{AtMs: t + 9000, Kind: "old_close"})
			break
		}
		if r.Chance(1, 6) {
			// acknowledgements of a foreign epoch (a client that answers an attempt long given up) arrive while
			// nothing can be moved (the path is gone): the listener must not report a successful hand-over
			ep := 1000 + r.Intn(50)
			p.Events = append(p.Events, mgrEvent{AtMs: next(), Kind: "unlink_socket"}, mgrEvent{AtMs: next(), Kind: "hot_restart", N: ep})
			for i, at := 0, t; i < 1+r.Intn(2); i++ {
				at += r.Pick(1, 20, 60, 150, 500)
				p.Events = append(p.Events, mgrEvent{AtMs: at, Kind: "stale_ack", N: ep + r.Pick(-7, -1, 1, 1000)})
			}
			p.Events = append(p.Events, mgrEvent{AtMs: t + 2500 + r.Intn(1500), Kind: "new_listener"}, mgrEvent{AtMs: t + 9000, Kind: "old_close"})
			break
		}
		if r.Chance(1, 8) {
			// a first attempt that cannot move anything and is given up; its acknowledgements arrive late (after the
			// listener's time-out); the replacement comes up and a second attempt with a new epoch must go through
			ep := 1000 + r.Intn(50)
			p.Events = append(p.Events, mgrEvent{AtMs: next(), Kind: "unlink_socket"}, mgrEvent{AtMs: next(), Kind: "hot_restart", N: ep},
				mgrEvent{AtMs: t + 2300 + r.Intn(300), Kind: "stale_ack", N: ep}, mgrEvent{AtMs: t + 2700, Kind: "new_listener"},
				mgrEvent{AtMs: t + 3000 + r.Intn(1500), Kind: "hot_restart_again", N: 2000 + r.Intn(50)}, mgrEvent{AtMs: t + 9500, Kind: "old_close"})
			break
		}
		lateListener := r.Chance(1, 4)
		noListener := !lateListener && r.Chance(1, 6)
		if !lateListener && !noListener {
			p.Events = append(p.Events, mgrEvent{AtMs: next(), Kind: "new_listener"})
		}
		ep := 1000 + r.Intn(50)
		p.Events = append(p.Events, mgrEvent{AtMs: next(), Kind: "hot_restart", N: ep})
		if lateListener {
			p.Events = append(p.Events, mgrEvent{AtMs: t + r.Pick(10, 300, 1500, 2500), Kind: "new_listener"})
		}
		if r.Chance(1, 3) {
			p.Events = append(p.Events, mgrEvent{AtMs: t + r.Pick(1, 50, 500), Kind: "hot_restart_again", N: ep + r.Pick(-1, 0, 1)})
		}
		if r.Chance(1, 4) {
			p.Events = append(p.Events, mgrEvent{AtMs: t + r.Pick(1, 50, 500), Kind: "close_server_sessions", N: 1})
		}
		p.Events = append(p.Events, mgrEvent{AtMs: t + 3500 + r.Intn(1000), Kind: "old_close"})
	default: // C15 (and C09): pool histories, occasional session loss
		if prop != "C09" && r.Chance(1, 4) {
			p.Events = append(p.Events, mgrEvent{AtMs: next(), Kind: "close_server_sessions", N: 1})
		}
	}
	return p
}

func (mgrScenario) Shrink(plan interface{}) []interface{} {
	p := plan.(*mgrPlan)
	clone := func() *mgrPlan {
		b, _ := json.Marshal(p)
		var q mgrPlan
		_ = json.Unmarshal(b, &q)
		return &q
	}
	var out []interface{}
	if len(p.Callers) > 1 {
		for i := range p.Callers {
			q := clone()
			q.Callers = append(q.Callers[:i], q.Callers[i+1:]...)
			out = append(out, q)
		}
	}
	for i := range p.Callers {
		for j := range p.Callers[i].Uses {
			if len(p.Callers[i].Uses) > 1 {
				q := clone()
				q.Callers[i].Uses = append(q.Callers[i].Uses[:j], q.Callers[i].Uses[j+1:]...)
				out = append(out, q)
			}
		}
	}
	for i := range p.Events {
		q := clone()
		q.Events = append(q.Events[:i], q.Events[i+1:]...)
		out = append(out, q)
	}
	if p.SessionNum > 1 {
		q := clone()
		q.SessionNum = 1
		out = append(out, q)
	}
	if p.TailUses > 1 {
		q := clone()
		q.TailUses = 1
		out = append(out, q)
	}
	if p.Cfg.FragR || p.Cfg.FragW || p.Cfg.Spurious != 0 {
		q := clone()
		q.Cfg.FragR, q.Cfg.FragW, q.Cfg.Spurious = false, false, 0
		out = append(out, q)
	}
	if p.Sim.PointMean != 0 {
		q := clone()
		q.Sim.PointMean = 0
		out = append(out, q)
	}
	return out
}

func (mgrScenario) Post(plan interface{}, res *simrt.Result, rec *RunRecord) {
	rec.Nontrivial = res.Counters["mgr.uses"] > 0 && res.Switches > 300
}

const mgrHdr = 22

type mgrServer struct {
	proc     *simrt.Proc
	listener *Listener
	name     string
	up       bool
	sessions int
}

type mgrWorld struct {
	plan    *mgrPlan
	sim     *simrt.Sim
	own     string
	dir     string
	sock    string
	pm, pc  *simrt.Proc
	servers []*mgrServer
	cur     *mgrServer // the server that should be receiving new connections
	old     *mgrServer
	sm      *SessionManager
	held    map[*Stream]int // stream -> caller currently holding it
	late    map[*Stream]bool // an earlier use of this stream left bytes unread / still in flight when it was given back
	dirty   map[*Stream]bool // given back while unread bytes had already arrived: must never come out of the pool again
	uses    int64
	okUses  int64
	errUses int64
	probes  map[string]int64
	// timeline state
	mgrClosed     bool
	lastFaultAt   time.Duration
	serverDownAt  time.Duration
	serverUpAt    time.Duration
	serverIsUp    bool
	hotEpoch      uint64
	hotStartedAt  time.Duration
	hotListener   bool
	dials         int64
	dialsAtClose  int64
	nproc         int
	callersDone   int
	callerG       []*simrt.G
	callerBusy    []time.Duration
	callerWhat    []string
	faulty        bool
	socketGone    bool
	rounds        int
	benign        bool
	cleanHandover bool
	staleAcks     bool // acknowledgements of a foreign epoch have been injected
}

func (w *mgrWorld) on(p string) bool { return w.own == "" || w.own == p }

func (w *mgrWorld) fail(rule string, tags map[string]string, format string, args ...interface{}) {
	if w.own == "" || len(rule) >= 3 && rule[:3] == w.own || len(rule) > 8 && rule[:8] == "harness." {
		simrt.FailTagged(rule, tags, format, args...)
		return
	}
	w.probes["other_oracle."+rule]++
}

func mgrByte(caller, use, j int) byte {
	x := uint32(caller+1)*2654435761 ^ uint32(use+1)*40503 ^ uint32(j)*2246822519
	x ^= x >> 13
	return byte(x)
}

// mgrApp is the server application: a ListenCallback that serves every new stream with an echo-like thread.
type mgrApp struct {
	w   *mgrWorld
	srv *mgrServer
}

func (a *mgrApp) OnNewStream(st *Stream) {
	simrt.GoProc(a.srv.proc, "serve", func() { a.w.serve(a.srv, st) })
}
func (a *mgrApp) OnShutdown(reason string) {}

func (w *mgrWorld) serve(srv *mgrServer, st *Stream) {
	simrt.MarkDaemon()
	br := st.BufferReader()
	for {
		_ = st.SetReadDeadline(time.Now().Add(120 * time.Second))
		h, err := br.ReadBytes(mgrHdr)
		if err != nil {
			_ = st.Close()
			return
		}
		if h[0] != 0xA1 {
			w.fail("C15.server_garbage", nil, "server received a request that does not start with a request header on stream %d", st.StreamID())
			_ = st.Close()
			return
		}
		caller := int(binary.BigEndian.Uint16(h[1:3]))
		use := int(binary.BigEndian.Uint16(h[3:5]))
		reqLen := int(binary.BigEndian.Uint32(h[5:9]))
		respLen := int(binary.BigEndian.Uint32(h[9:13]))
		flags := h[13]
		extra := int(binary.BigEndian.Uint32(h[14:18]))
		delay := int(binary.BigEndian.Uint32(h[18:22]))
		br.ReleasePreviousRead()
		if reqLen > 0 {
			if _, err := br.Discard(reqLen); err != nil {
				_ = st.Close()
				return
			}
			br.ReleasePreviousRead()
		}
		resp := make([]byte, respLen)
		for j := range resp {
			resp[j] = mgrByte(caller, use, j)
		}
		if _, err := st.BufferWriter().WriteBytes(resp); err != nil {
			_ = st.Close()
			return
		}
		if err := st.Flush(false); err != nil {
			_ = st.Close()
			return
		}
		if extra > 0 {
			simrt.Sleep(time.Duration(delay) * time.Millisecond)
			ex := make([]byte, extra)
			for j := range ex {
				ex[j] = mgrByte(caller, use, respLen+j)
			}
			_, _ = st.BufferWriter().WriteBytes(ex)
			_ = st.Flush(false)
			w.probes["late_extra_sent"]++
		}
		if flags&1 != 0 {
			_ = st.Close()
			w.probes["server_closed_stream"]++
			return
		}
	}
}

func (mgrScenario) Run(s *simrt.Sim, plan interface{}, opts map[string]string) (*simrt.Proc, func()) {
	p := plan.(*mgrPlan)
	k := ssys.NewKernel(s, p.Cfg.kernel())
	_ = k
	installGlobals(s)
	w := &mgrWorld{plan: p, sim: s, own: opts["property"], held: map[*Stream]int{}, late: map[*Stream]bool{}, dirty: map[*Stream]bool{}, probes: map[string]int64{}}
	w.pm = newProc(s, "harness", 6000)
	w.pc = newProc(s, "client", 6001)
	w.dir = newRunDir(s)
	w.sock = w.dir + "/server.sock"
	w.faulty = len(p.Events) > 0
	// a clean hand-over: the new listener is up before HotRestart, nothing else happens
	if n := len(p.Events); n > 0 && n%3 == 0 {
		w.cleanHandover = true
		for i := 0; i < n; i += 3 {
			if p.Events[i].Kind != "new_listener" || p.Events[i+1].Kind != "hot_restart" || p.Events[i+2].Kind != "old_close" {
				w.cleanHandover = false
			}
		}
	}
	w.benign = true
	for _, c := range p.Callers {
		for _, u := range c.Uses {
			if u.ServerClose {
				w.benign = false
			}
		}
	}
	s.OnEnd = append(s.OnEnd, func() {
		for kk, v := range w.probes {
			s.Counters["probe."+kk] = v
		}
		s.Counters["mgr.uses"] = w.uses
		s.Counters["mgr.ok_uses"] = w.okUses
		s.Counters["mgr.err_uses"] = w.errUses
	})
	return w.pm, w.main
}

func (w *mgrWorld) startServer(setUnlink bool) *mgrServer {
	w.nproc++
	srv := &mgrServer{name: fmt.Sprintf("server%d", w.nproc)}
	srv.proc = newProc(w.sim, srv.name, 6100+w.nproc)
	w.servers = append(w.servers, srv)
	done := make(chan error, 1)
	simrt.GoProc(srv.proc, "listener-main", func() {
		lc := &ListenerConfig{Config: w.plan.Cfg.config(w.dir, "srv"), Network: "unix", ListenPath: w.sock}
		l, err := NewListener(&mgrApp{w: w, srv: srv}, lc)
		if err != nil {
			done <- err
			return
		}
		srv.listener = l
		if setUnlink {
			l.SetUnlinkOnClose(false)
		}
		done <- nil
		simrt.MarkDaemon()
		_ = l.Run()
	})
	if err := simrt.Recv(done); err != nil {
		w.fail("harness.listen", nil, "NewListener: %v", err)
		return nil
	}
	srv.up = true
	return srv
}

func (w *mgrWorld) main() {
	p := w.plan
	simrt.PointsOn(false)
	w.cur = w.startServer(true)
	if w.cur == nil {
		return
	}
	w.serverIsUp = true
	// the session manager lives in the client process
	mkDone := make(chan error, 1)
	simrt.GoProc(w.pc, "mgr-create", func() {
		conf := &SessionManagerConfig{Config: p.Cfg.config(w.dir, "cli"), Network: "unix", Address: w.sock, SessionNum: p.SessionNum, MaxStreamNum: p.MaxStreamNum, StreamMaxIdleTime: 30 * time.Second}
		conf.Config.rebuildInterval = time.Duration(p.RebuildMs) * time.Millisecond
		sm, err := NewSessionManager(conf)
		w.sm = sm
		mkDone <- err
	})
	if err := simrt.Recv(mkDone); err != nil {
		w.fail("harness.manager", nil, "NewSessionManager: %v", err)
		return
	}
	simrt.PointsOn(true)
	fin := make(chan int, 16)
	w.callerBusy = make([]time.Duration, len(p.Callers))
	w.callerWhat = make([]string, len(p.Callers))
	for ci := range p.Callers {
		ci := ci
		g := simrt.GoProc(w.pc, fmt.Sprintf("caller%d", ci), func() {
			for ui, u := range p.Callers[ci].Uses {
				if simrt.Failed() || w.mgrClosed {
					break
				}
				w.use(ci, ui, u, false)
			}
			simrt.Send(fin, ci)
		})
		w.callerG = append(w.callerG, g)
	}
	dirDone := make(chan struct{})
	simrt.GoProc(w.pm, "director", func() {
		defer close(dirDone)
		w.director()
	})
	// callers must finish: every call is bounded (read deadlines) unless something hangs
	bound := simrt.NewTimer(300 * time.Second)
	for n := 0; n < len(p.Callers); {
		i, _, _ := simrt.Select(false, simrt.RecvCase(fin), simrt.RecvCase(bound.C))
		if i != 0 {
			for ci, g := range w.callerG {
				if !g.Done() {
					w.fail(w.hangRule(), nil, "caller %d is still blocked in %s after 300 s (virtual): %s", ci, w.callerWhat[ci], g.What())
					return
				}
			}
			break
		}
		n++
	}
	bound.Stop()
	simrt.Recv(dirDone)
	if simrt.Failed() {
		return
	}
	// settle: rebuild interval + hot restart timeouts + handshake
	simrt.Sleep(time.Duration(p.RebuildMs)*time.Millisecond + 12*time.Second)
	w.settledOracles()
	if simrt.Failed() {
		return
	}
	if !w.mgrClosed {
		done := make(chan struct{})
		simrt.GoProc(w.pc, "mgr-close", func() { defer close(done); _ = w.sm.Close() })
		t := simrt.NewTimer(60 * time.Second)
		i, _, _ := simrt.Select(false, simrt.RecvCase(done), simrt.RecvCase(t.C))
		t.Stop()
		if i != 0 {
			w.fail(w.hangRule(), nil, "SessionManager.Close has not returned after 60 s")
			return
		}
	}
	for _, srv := range w.servers {
		if srv.up && !srv.proc.Dead && srv.listener != nil {
			l := srv.listener
			simrt.GoProc(srv.proc, "listener-close", func() { _ = l.Close() })
		}
	}
	simrt.Sleep(5 * time.Second)
}

func (w *mgrWorld) hangRule() string {
	switch w.own {
	case "C16":
		return "C16.hang"
	case "C17":
		return "C17.hang"
	}
	return "C15.hang"
}

// healthy reports whether a use issued now must succeed: no fault in flight and a server is reachable.
func (w *mgrWorld) expectSuccessNow() bool {
	if w.mgrClosed || !w.serverIsUp {
		return false
	}
	if !w.faulty || w.cleanHandover {
		return true // a hot restart whose new listener is up beforehand must be invisible to callers
	}
	return false
}

// use performs one GetStream / request / response / PutBack cycle with its oracle.
func (w *mgrWorld) use(caller, useIdx int, u usePlan, mustSucceed bool) (ok bool) {
	if u.SleepMs > 0 {
		simrt.Sleep(time.Duration(u.SleepMs) * time.Millisecond)
	}
	simrt.Yield(simrt.KHarness, "use")
	w.uses++
	what := func(s string) { w.callerWhat[caller%len(w.callerWhat)] = s }
	// closures racing with a call are the caller's normal error path: only fault-free plans without
	// server-side closes demand that every use succeeds; uses issued after everything settled always do
	strict := mustSucceed || (w.expectSuccessNow() && w.benign)
	fail := func(stage string, err error) bool {
		w.errUses++
		if strict {
			w.fail(w.useRule(), nil, "caller %d use %d: %s failed with %v although no fault is outstanding and a server is up", caller, useIdx, stage, err)
		}
		return false
	}
	what("GetStream")
	// closures that completed before the call began
	st, err := w.sm.GetStream()
	if err != nil {
		return fail("GetStream", err)
	}
	if st == nil {
		w.fail(w.own+".open_nil", nil, "caller %d: GetStream returned neither a stream nor an error", caller)
		return false
	}
	if other, dup := w.held[st]; dup {
		w.fail("C15.double_handout", nil, "caller %d obtained a stream (id %d) that caller %d still holds", caller, st.StreamID(), other)
		return false
	}
	w.held[st] = caller
	if w.dirty[st] {
		w.fail("C15.pooled_dirty", nil, "caller %d use %d: GetStream returned stream %d, which was given back while %s", caller, useIdx, st.StreamID(), "unread bytes of the previous use had already arrived (it should have been closed, not pooled)")
		delete(w.held, st)
		return false
	}
	release := func() {
		delete(w.held, st)
	}
	if w.on("C15") {
		if n := st.BufferReader().Len(); n != 0 {
			w.fail("C15.stale_bytes", w.staleTags(st), "caller %d use %d: stream %d came out of the pool with %d unread bytes of an earlier use", caller, useIdx, st.StreamID(), n)
			release()
			_ = st.Close()
			return false
		}
	}
	// request
	h := make([]byte, mgrHdr)
	h[0] = 0xA1
	binary.BigEndian.PutUint16(h[1:3], uint16(caller))
	binary.BigEndian.PutUint16(h[3:5], uint16(useIdx))
	binary.BigEndian.PutUint32(h[5:9], uint32(u.ReqLen))
	binary.BigEndian.PutUint32(h[9:13], uint32(u.RespLen))
	if u.ServerClose {
		h[13] = 1
	}
	binary.BigEndian.PutUint32(h[14:18], uint32(u.Extra))
	binary.BigEndian.PutUint32(h[18:22], uint32(u.ExtraDelay))
	req := make([]byte, u.ReqLen)
	what("write")
	bw := st.BufferWriter()
	_, _ = bw.WriteBytes(h)
	if len(req) > 0 {
		_, _ = bw.WriteBytes(req)
	}
	if err := st.Flush(false); err != nil {
		release()
		w.sm.PutBack(st)
		return fail("Flush", err)
	}
	// response
	_ = st.SetReadDeadline(time.Now().Add(20 * time.Second))
	want := u.RespLen - u.LeaveUnread
	if want < 0 {
		want = 0
	}
	if want > 0 {
		what("read")
		got, err := st.BufferReader().ReadBytes(want)
		if err != nil {
			release()
			w.sm.PutBack(st)
			return fail("ReadBytes", err)
		}
		for j := range got {
			if got[j] != mgrByte(caller, useIdx, j) {
				tags := w.staleTags(st)
				if tags == nil {
					tags = w.lostTags(st)
				}
				w.fail("C15.stale_bytes", tags, "caller %d use %d: the response read on stream %d does not belong to this use (byte %d differs): bytes of an earlier use or of another caller", caller, useIdx, st.StreamID(), j)
				release()
				_ = st.Close() // a caller that gets garbage gives the stream up
				return false
			}
		}
		if !u.NoRelease {
			st.BufferReader().ReleasePreviousRead()
		}
	}
	if u.LingerMs > 0 {
		simrt.Sleep(time.Duration(u.LingerMs) * time.Millisecond)
	}
	// bytes of this use that already sit in the stream when it is given back must keep it out of the pool; bytes still
	// in flight are the (known) blind spot of the PutBack-time check
	arrived := st.recvBuf.Len() > 0
	st.pendingData.Lock()
	if len(st.pendingData.unread) > 0 {
		arrived = true
	}
	st.pendingData.Unlock()
	if arrived && !u.NoPutBack {
		w.dirty[st] = true
		w.probes["putback_with_arrived_unread_bytes"]++
	} else if u.Extra > 0 || u.LeaveUnread > 0 {
		w.late[st] = true
	}
	what("putback")
	// the caller gives the stream up when it *calls* PutBack: the pool may hand it to somebody else before PutBack returns
	release()
	if u.NoPutBack {
		_ = st.Close()
	} else {
		w.sm.PutBack(st)
	}
	w.okUses++
	what("")
	return true
}

func (w *mgrWorld) staleTags(st *Stream) map[string]string {
	if w.late[st] {
		return map[string]string{"bytes_in_flight_at_putback": "yes"}
	}
	return nil
}

// lostTags tells garbage produced by the teardown of the stream's own session (finding F-TEARDOWN: the peer's
// session close recycled the buffers it had just published) from stale bytes on a healthy session: the loss of the
// session reaches this side within 100 ms.
func (w *mgrWorld) lostTags(st *Stream) map[string]string {
	for i := 0; i < 100; i++ {
		if st.session.shutdown == 1 {
			return map[string]string{"own_session_lost": "yes"}
		}
		simrt.Sleep(time.Millisecond)
	}
	return nil
}

func (w *mgrWorld) useRule() string {
	switch w.own {
	case "C16":
		return "C16.use_failed"
	case "C17":
		return "C17.use_failed"
	}
	return "C15.use_failed"
}

func (w *mgrWorld) director() {
	start := simrt.Now()
	for _, ev := range w.plan.Events {
		if simrt.Failed() {
			return
		}
		if d := start + time.Duration(ev.AtMs)*time.Millisecond - simrt.Now(); d > 0 {
			simrt.Sleep(d)
		}
		simrt.Event("EVENT %s n=%d", ev.Kind, ev.N)
		switch ev.Kind {
		case "kill_server":
			simrt.SetGlobalTag("after_session_loss", "yes")
			if w.cur != nil && w.cur.up {
				ssys.K.KillProc(w.cur.proc)
				w.cur.up = false
				w.serverIsUp = false
				w.serverDownAt = simrt.Now()
				w.lastFaultAt = simrt.Now()
			}
		case "start_server":
			if !w.serverIsUp {
				w.cur = w.startServer(true)
				w.serverIsUp = w.cur != nil
				w.serverUpAt = simrt.Now()
				w.lastFaultAt = simrt.Now()
			}
		case "close_server_sessions":
			simrt.SetGlobalTag("after_session_loss", "yes")
			if w.cur != nil && w.cur.up && w.cur.listener != nil {
				l := w.cur.listener
				n := ev.N
				simrt.GoProc(w.cur.proc, "close-sessions", func() {
					l.sessions.sessionMu.Lock()
					var ss []*Session
					for _, k := range simrt.SortedKeys(l.sessions.data) {
						ss = append(ss, k)
					}
					l.sessions.sessionMu.Unlock()
					for i, s := range ss {
						if i >= n {
							break
						}
						_ = s.Close()
					}
				})
				simrt.Count("fault.server_session_closed", int64(ev.N))
				w.lastFaultAt = simrt.Now()
			}
		case "new_listener":
			if w.socketGone && w.old != nil {
				// the replacement finally comes up on the path that had disappeared
				w.cur = w.startServer(true)
				w.socketGone = false
				w.serverIsUp = w.cur != nil
				w.serverUpAt = simrt.Now()
				w.lastFaultAt = simrt.Now()
			} else if w.serverIsUp && w.old == nil {
				w.old = w.cur
				w.cur = w.startServer(true)
				w.hotListener = true
				w.lastFaultAt = simrt.Now()
			}
		case "hot_restart", "hot_restart_again":
			srv := w.old
			if srv == nil {
				srv = w.cur // no new listener yet (or never): the hand-over will fail or be late
			}
			if srv != nil && srv.up && srv.listener != nil {
				l := srv.listener
				ep := uint64(ev.N)
				if ev.Kind == "hot_restart" || (ep != w.hotEpoch && simrt.Now()-w.hotStartedAt > 2500*time.Millisecond) {
					// a first request, or a new one after the previous attempt has finished or timed out
					w.hotEpoch = ep
					w.hotStartedAt = simrt.Now()
					if w.old == nil {
						w.old = w.cur
					}
					if w.cur != w.old {
						w.hotListener = true
					}
				}
				want := w.plan.SessionNum
				simrt.GoProc(srv.proc, "hot-restart", func() {
					// the application asks for a hot restart once its listener has registered the sessions it serves
					// (a session is visible to the client a few instructions before Listener.Run adds it to its table)
					for tries := 0; tries < 2000; tries++ {
						l.sessions.sessionMu.Lock()
						n := len(l.sessions.data)
						l.sessions.sessionMu.Unlock()
						if n >= want {
							break
						}
						simrt.Sleep(time.Millisecond)
					}
					err := l.HotRestart(ep)
					if err != nil {
						w.probes["hot_restart_error"]++
					}
				})
				simrt.Count("fault.hot_restart", 1)
				w.lastFaultAt = simrt.Now()
			}
		case "stale_ack":
			// every client session acknowledges a hot restart of an epoch the listener is not (or no longer) working on
			ep := uint64(ev.N)
			over := false // the attempt for w.hotEpoch has been given up by the listener (2 s) and nothing is in progress
			if srv := w.old; srv != nil && srv.listener != nil && simrt.Now()-w.hotStartedAt > 2200*time.Millisecond {
				over = srv.listener.state != hotRestartState
			}
			if (ep != w.hotEpoch || over) && w.sm != nil {
				if ep == w.hotEpoch {
					simrt.Count("fault.late_hot_restart_ack", 1)
				}
				pools := append([]*streamPool(nil), w.sm.pools...)
				simrt.GoProc(w.pc, "stale-ack", func() {
					for _, pool := range pools {
						if sess := pool.Session(); sess != nil && !sess.IsClosed() {
							_ = sess.hotRestart(ep, typeHotRestartAck)
						}
					}
				})
				w.staleAcks = true
				simrt.Count("fault.stale_hot_restart_ack", 1)
			}
		case "unlink_socket":
			// the socket path disappears (a new server that unlinked it and died before listening): dials fail
			_ = os.Remove(w.sock)
			w.socketGone = true
			w.lastFaultAt = simrt.Now()
			simrt.Count("fault.socket_unlinked", 1)
		case "old_close":
			// the application lets the old server go once the hand-over is reported done: by then every pool
			// must already be on a session of the announced epoch connected to the new server
			if w.staleAcks && w.on("C16") && w.old != nil && w.old.listener != nil && w.old.listener.state == hotRestartDoneState && w.old.listener.epoch == w.hotEpoch {
				// the listener reports a *successful* hand-over to this epoch: every pool must be on a session of it
				for i, pool := range w.sm.pools {
					if sp := pool.Session(); sp == nil || sp.epochID != w.hotEpoch {
						w.fail("C16.not_migrated", map[string]string{"stale_acks": "yes"}, "the old listener reports the hot restart to epoch %d as successfully completed but pool %d is not on a session of that epoch (only acknowledgements of foreign epochs had been sent)", w.hotEpoch, i)
						return
					}
				}
				w.probes["stale_ack_success_verdict_checked"]++
			}
			if w.cleanHandover && w.on("C16") && w.old != nil && w.old.listener != nil && w.old.listener.IsHotRestartDone() {
				for i, pool := range w.sm.pools {
					s := pool.Session()
					if s == nil || s.IsClosed() || s.epochID != w.hotEpoch {
						ep := uint64(0)
						if s != nil {
							ep = s.epochID
						}
						w.fail("C16.not_migrated", nil, "the old listener reports the hot restart to epoch %d as done but pool %d is still on a session of epoch %d", w.hotEpoch, i, ep)
						return
					}
					if owner := ssys.K.OwnerOfPeer(ssys.K.SockOf(s.connFd)); owner != nil && owner != w.cur.proc {
						w.fail("C16.wrong_server", nil, "the hot restart is reported done but pool %d is still connected to %s", i, owner.Name)
						return
					}
					w.probes["migrated_before_old_close"]++
				}
			}
			simrt.SetGlobalTag("after_session_loss", "yes")
			if w.old != nil && w.old.up && w.old.listener != nil {
				l := w.old.listener
				simrt.GoProc(w.old.proc, "old-close", func() { _ = l.Close() })
				w.old.up = false
				if w.cur == w.old {
					w.serverIsUp = false
				}
				w.old = nil // the next round may start
				w.rounds++
				w.lastFaultAt = simrt.Now()
			}
		case "mgr_close":
			simrt.SetGlobalTag("after_session_loss", "yes")
			if !w.mgrClosed {
				done := make(chan struct{})
				simrt.GoProc(w.pc, "mgr-close", func() { defer close(done); _ = w.sm.Close() })
				t := simrt.NewTimer(60 * time.Second)
				i, _, _ := simrt.Select(false, simrt.RecvCase(done), simrt.RecvCase(t.C))
				t.Stop()
				if i != 0 {
					w.fail(w.hangRule(), nil, "SessionManager.Close has not returned after 60 s")
					return
				}
				w.mgrClosed = true
				w.dialsAtClose = ssys.K.Stats["connect"]
			}
		}
	}
}

// settledOracles run after the timeline, once every rebuild / hot-restart timer had time to fire.
func (w *mgrWorld) settledOracles() {
	p := w.plan
	sm := w.sm
	// C17: closing the manager stops all of it
	if w.mgrClosed {
		if w.on("C17") {
			if d := ssys.K.Stats["connect"]; d != w.dialsAtClose {
				w.fail("C17.dial_after_close", nil, "the session manager dialled %d more time(s) after Close had returned", d-w.dialsAtClose)
				return
			}
			// closing the manager stops all of this: no session of it is left alive in the client process
			c := ssys.K.CensusOf(w.pc)
			var socks []string
			for _, fd := range c.SimFds {
				if k := ssys.K.FdKind(fd); k != "epoll" {
					socks = append(socks, fmt.Sprintf("%d:%s", fd, k))
				}
			}
			if len(socks) > 0 || c.Mappings > 0 || len(c.RealFds) > 0 {
				w.fail("C17.alive_after_close", nil, "%v after SessionManager.Close returned the client process still holds connections %v, %d mapping(s), memfds %v: a (rebuilt) session survived the Close", simrt.Now()-w.lastFaultAt, socks, c.Mappings, c.RealFds)
			}
		}
		return
	}
	// C16: both sides have left the hot-restart state
	if w.hotEpoch != 0 && w.on("C16") {
		sm.RLock()
		st := sm.state
		sm.RUnlock()
		if st == hotRestartState {
			w.fail("C16.manager_stuck", nil, "%v after the hot restart was requested the session manager is still in the hot-restart state", simrt.Now()-w.hotStartedAt)
			return
		}
		if w.old != nil && w.old.listener != nil && !w.old.proc.Dead && !w.old.listener.IsHotRestartDone() {
			w.fail("C16.listener_stuck", nil, "%v after HotRestart the old listener still reports the hot restart as in progress", simrt.Now()-w.hotStartedAt)
			return
		}
	}
	if !w.serverIsUp {
		return
	}
	// every pool must hold a live session again and GetStream must work (C15 fault-free, C16 after hand-over, C17 after healing)
	for i, pool := range sm.pools {
		s := pool.Session()
		if s == nil || s.IsClosed() {
			w.fail(w.healRule(), nil, "pool %d has no live session %v after the last fault although a server has been reachable since %v (rebuild interval %d ms)", i, simrt.Now()-w.lastFaultAt, simrt.Now()-w.serverUpAt, p.RebuildMs)
			return
		}
		w.probes["pool_live_after_settle"]++
		if w.lastFaultAt > 0 {
			w.probes["pool_live_after_fault"]++
		}
		if w.hotEpoch != 0 && w.hotListener && w.on("C16") && w.probes["hot_restart_error"] == 0 {
			if s.epochID == w.hotEpoch {
				w.probes["hot_restart_epoch_ok"]++
			}
			if s.epochID != w.hotEpoch {
				tags := map[string]string{}
				w.fail("C16.epoch", tags, "pool %d: session has epoch %d after the hot restart to epoch %d completed", i, s.epochID, w.hotEpoch)
				return
			}
			if sk := ssys.K.SockOf(s.connFd); sk != nil && w.cur != nil {
				// the peer of the pool's session is the new server
				if owner := ssys.K.OwnerOfPeer(sk); owner != nil && owner != w.cur.proc {
					w.fail("C16.wrong_server", nil, "pool %d: after the hot restart the session is still connected to %s, not to the new server", i, owner.Name)
					return
				}
			}
		}
	}
	done := make(chan struct{})
	simrt.GoProc(w.pc, "tail-caller", func() {
		defer close(done)
		for i := 0; i < p.TailUses; i++ {
			if !w.use(len(p.Callers), 100+i, usePlan{ReqLen: 10 + i, RespLen: 20 + i}, true) {
				return
			}
		}
	})
	w.callerWhat = append(w.callerWhat, "")
	t := simrt.NewTimer(120 * time.Second)
	i, _, _ := simrt.Select(false, simrt.RecvCase(done), simrt.RecvCase(t.C))
	t.Stop()
	if i != 0 {
		w.fail(w.hangRule(), nil, "a use issued after everything settled is still blocked after 120 s")
		return
	}
	if simrt.Failed() {
		return
	}
	simrt.Sleep(3 * time.Second)
	// C09: with no stream in use, the only shared-memory buffers still allocated are the slices that pooled streams
	// keep for their next write (ReleaseReadAndReuse). The sessions of one manager share one buffer manager.
	// (only in runs without session loss: buffers that were in flight to or held by a lost session stay allocated in
	// the buffer manager that its sibling sessions keep alive - session loss is the subject of C14/C17, not of C09)
	if w.on("C09") && !w.faulty {
		reserved := map[*bufferManager]int{}
		unread := map[*bufferManager]bool{}
		var bms []*bufferManager
		for _, pool := range sm.pools {
			s := pool.Session()
			if s == nil || s.IsClosed() || s.bufferManager == nil {
				continue
			}
			bm := s.bufferManager
			if _, seen := reserved[bm]; !seen {
				reserved[bm] = 0
				bms = append(bms, bm)
			}
			pool.Lock()
			for k := pool.head; k < pool.tail; k++ {
				if st := pool.streams[k%uint64(pool.capacity)]; st != nil && st.session == s {
					if st.recvBuf.len > 0 || len(st.pendingData.unread) > 0 {
						unread[bm] = true // bytes that arrived late for a pooled stream are unread data, not a leak
					}
					for _, lb := range []*linkedBuffer{st.sendBuf, st.recvBuf} {
						for sl := lb.sliceList.frontSlice; sl != nil; sl = sl.nextSlice {
							if sl.isFromShm {
								reserved[bm]++
							}
						}
					}
				}
			}
			pool.Unlock()
		}
		for _, bm := range bms {
			if unread[bm] {
				continue
			}
			if n := shmInUse(bm); n != reserved[bm] {
				w.fail("C09.leak", nil, "callers hold no stream, the pooled streams keep %d slice(s) for reuse, but %d shared-memory buffers are allocated", reserved[bm], n)
				return
			}
			w.probes["pool_memory_balanced"]++
		}
	}
	// C15: the active-stream count returns to what callers hold (nothing) plus what sits in the pools
	if w.on("C15") {
		for i, pool := range sm.pools {
			s := pool.Session()
			if s == nil || s.IsClosed() {
				continue
			}
			pooled := 0
			pool.Lock()
			for k := pool.head; k < pool.tail; k++ {
				if st := pool.streams[k%uint64(pool.capacity)]; st != nil && st.session == s {
					pooled++
				}
			}
			pool.Unlock()
			if n := s.GetActiveStreamCount(); n != pooled {
				w.fail("C15.active_count", nil, "pool %d: the session counts %d active streams but callers hold none and the pool keeps %d", i, n, pooled)
				return
			}
		}
	}
}

func (w *mgrWorld) healRule() string {
	switch w.own {
	case "C16":
		return "C16.no_session"
	case "C15":
		return "C15.no_session"
	}
	return "C17.not_healed"
}
