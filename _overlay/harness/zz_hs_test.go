//go:build verif

package shmipc

// Scenario hs (C12): the real handshake of a client and a server session over
// the simulated kernel, for both mapping back-ends, with the peer stopping to
// answer (process frozen, connection left open) or dying at the k-th socket
// operation of the exchange. Oracle: success on both ends with the lower common
// version and the very same buffer and queue memory (checked through both
// mappings), or an error on both ends within InitializeTimeout + slack and no
// descriptor, mapping or file left behind.

import (
	"encoding/json"
	"fmt"
	"os"
	"time"

	"github.com/cloudwego/shmipc-go/simrt"
	"github.com/cloudwego/shmipc-go/simrt/simnet"
	"github.com/cloudwego/shmipc-go/simrt/ssys"
)

type hsFault struct {
	Proc int    `json:"proc"` // 0 client, 1 server
	K    int    `json:"k"`    // the fault hits right after the K-th socket operation of that process
	Kind string `json:"kind"` // freeze | kill
}

type hsPlan struct {
	Sim           SimKnobs `json:"sim"`
	Cfg           sessCfg  `json:"cfg"`
	Transport     string   `json:"transport"` // unix | tcp
	InitTimeoutMs int      `json:"init_timeout_ms"`
	Fault         *hsFault `json:"fault,omitempty"`
	Stale         bool     `json:"stale_file,omitempty"` // a file with the queue's name already exists
	MmapFail      *hsMmap  `json:"mmap_fail,omitempty"`  // the n-th mmap of one side fails with ENOMEM
	// protocol generation announced by the client / the server process when it is newer than the code's own
	// (0 = the code's). The exchange must settle on the lower of the two announcements on both ends - or fail on both.
	GenC int `json:"gen_client,omitempty"`
	GenS int `json:"gen_server,omitempty"`
	// Twin > 1: that many sessions between the same two processes are established at the same time; they share
	// the client's ShareMemoryPathPrefix (one buffer region, as the sessions of a session manager do) and have their
	// own queues. No fault is injected in these runs.
	Twin int `json:"twin,omitempty"`
}

type hsMmap struct {
	Proc int `json:"proc"` // 0 client, 1 server
	N    int `json:"n"`    // 1-based
}

type hsScenario struct{}

func init() { scenarios["hs"] = hsScenario{} }

func (hsScenario) Decode(raw json.RawMessage) (interface{}, error) {
	var p hsPlan
	err := json.Unmarshal(raw, &p)
	return &p, err
}
func (hsScenario) Knobs(plan interface{}) SimKnobs { return plan.(*hsPlan).Sim }

func (hsScenario) Gen(r *Rng, tier string, opts map[string]string) interface{} {
	p := &hsPlan{Sim: genKnobs(r, false), Cfg: genSessCfg(r), Transport: "unix"}
	p.Sim.HorizonSec = 120
	p.InitTimeoutMs = r.Pick(200, 1000, 3000)
	if r.Chance(1, 5) {
		p.Transport = "tcp"
	}
	if r.Chance(1, 12) {
		p.Stale = true
	}
	if r.Chance(3, 4) {
		f := &hsFault{Proc: r.Intn(2), K: r.Intn(14), Kind: "freeze"}
		if r.Chance(1, 3) {
			f.Kind = "kill"
		}
		p.Fault = f
	}
	if r.Chance(1, 8) {
		// failing system call: the first or second mapping of one side (queue and buffer memory, in the order that
		// side maps them) cannot be established; no other fault in the same run
		p.MmapFail = &hsMmap{Proc: r.Intn(2), N: 1 + r.Intn(2)}
		p.Fault = nil
	}
	if r.Chance(1, 4) {
		// a peer of a later protocol generation (announces a higher maximum than this build's)
		switch r.Intn(4) {
		case 0, 1:
			p.GenS = r.Pick(4, 5, 7, 200, 255)
		case 2:
			p.GenC = r.Pick(4, 5, 255)
		default:
			p.GenS, p.GenC = r.Pick(4, 9), r.Pick(4, 9)
		}
	}
	if r.Chance(1, 10) {
		p.Twin = 2 + r.Intn(2)
		p.Fault, p.MmapFail, p.Stale = nil, nil, false
	}
	if v := opts["fault_k"]; v != "" {
		p.Twin = 0
		f := &hsFault{Kind: "freeze"}
		fmt.Sscanf(v, "%d", &f.K)
		fmt.Sscanf(opts["fault_proc"], "%d", &f.Proc)
		if opts["fault_kind"] != "" {
			f.Kind = opts["fault_kind"]
		}
		p.Fault = f
	}
	return p
}

func (hsScenario) Shrink(plan interface{}) []interface{} {
	p := plan.(*hsPlan)
	clone := func() *hsPlan {
		b, _ := json.Marshal(p)
		var q hsPlan
		_ = json.Unmarshal(b, &q)
		return &q
	}
	var out []interface{}
	if p.Cfg.FragR || p.Cfg.FragW || p.Cfg.Spurious != 0 {
		q := clone()
		q.Cfg.FragR, q.Cfg.FragW, q.Cfg.Spurious = false, false, 0
		out = append(out, q)
	}
	if p.Sim.PointMean != 0 {
		q := clone()
		q.Sim.PointMean = 0
		out = append(out, q)
	}
	if p.Stale {
		q := clone()
		q.Stale = false
		out = append(out, q)
	}
	if p.GenC != 0 || p.GenS != 0 {
		q := clone()
		q.GenC, q.GenS = 0, 0
		out = append(out, q)
	}
	if p.Twin > 2 {
		q := clone()
		q.Twin = 2
		out = append(out, q)
	}
	return out
}

// Base / Sweep: thorough tier = the fault (freeze or kill, client or server) after every socket operation of the exchange.
func (hsScenario) Base(plan interface{}) interface{} {
	b, _ := json.Marshal(plan)
	var q hsPlan
	_ = json.Unmarshal(b, &q)
	q.Fault = nil
	return &q
}

func (hsScenario) Sweep(plan interface{}, base *RunRecord) []interface{} {
	var out []interface{}
	if plan.(*hsPlan).Twin > 1 {
		return nil // concurrent-session plans carry no fault
	}
	for proc := 0; proc < 2; proc++ {
		n := int(base.Counters[fmt.Sprintf("hs.sock_ops_%d", proc)])
		for k := 0; k <= n; k++ {
			for _, kind := range []string{"freeze", "kill"} {
				b, _ := json.Marshal(plan)
				var q hsPlan
				_ = json.Unmarshal(b, &q)
				q.Fault = &hsFault{Proc: proc, K: k, Kind: kind}
				out = append(out, &q)
			}
		}
	}
	return out
}

func (hsScenario) Post(plan interface{}, res *simrt.Result, rec *RunRecord) {
	rec.Nontrivial = res.Counters["hs.sock_ops"] > 2
}

func (hsScenario) Run(s *simrt.Sim, plan interface{}, opts map[string]string) (*simrt.Proc, func()) {
	p := plan.(*hsPlan)
	k := ssys.NewKernel(s, p.Cfg.kernel())
	installGlobals(s)
	pm := newProc(s, "harness", 5000)
	pc := newProc(s, "client", 5001)
	ps := newProc(s, "server", 5002)
	dir := newRunDir(s)
	pc.ProtoGen, ps.ProtoGen = p.GenC, p.GenS
	procs := []*simrt.Proc{pc, ps}
	names := []string{"client", "server"}
	ops := [2]int{}
	faultAt := time.Duration(-1)
	k.SockOpHook = func(pr *simrt.Proc, op string) {
		for i := range procs {
			if procs[i] == pr {
				ops[i]++
				s.Counters["hs.sock_ops"]++
				s.Counters[fmt.Sprintf("hs.sock_ops_%d", i)]++
				if f := p.Fault; f != nil && f.Proc == i && ops[i] == f.K+1 && faultAt < 0 {
					faultAt = simrt.Now()
					if f.Kind == "kill" {
						k.KillProc(pr)
						simrt.Count("fault.kill_mid_handshake", 1)
					} else {
						pr.Frozen = true // stops answering: its goroutines never run again, the connection stays open
						simrt.Count("fault.peer_stops_answering", 1)
					}
				}
			}
		}
	}
	if mf := p.MmapFail; mf != nil {
		seen := 0
		k.MmapFault = func(pr *simrt.Proc) bool {
			if pr != procs[mf.Proc] {
				return false
			}
			seen++
			return seen == mf.N
		}
	}
	main := func() {
		if p.Twin > 1 {
			hsTwin(s, k, p, pc, ps, dir)
			return
		}
		confC, confS := p.Cfg.config(dir, "c"), p.Cfg.config(dir, "s")
		confC.InitializeTimeout = time.Duration(p.InitTimeoutMs) * time.Millisecond
		confS.InitializeTimeout = confC.InitializeTimeout
		if p.Stale {
			_ = os.WriteFile(confC.QueuePath, []byte("stale"), 0o644)
		}
		addrC, addrS := "@hs-c", "@hs-s"
		if p.Transport == "tcp" {
			addrC, addrS = "127.0.0.1:40001", "127.0.0.1:6666"
		}
		fdC, fdS := k.SocketPair(pc, ps, p.Transport, addrC, addrS)
		connC, connS := simnet.WrapFd(fdC), simnet.WrapFd(fdS)
		var sess [2]*Session
		var errs [2]error
		var ret [2]time.Duration
		var returned [2]bool
		hs := make(chan int, 2)
		start := simrt.Now()
		simrt.GoProc(ps, "server-handshake", func() {
			sess[1], errs[1] = Server(connS, confS)
			if errs[1] != nil {
				_ = connS.Close()
			}
			ret[1], returned[1] = simrt.Now(), true
			simrt.Send(hs, 1)
		})
		simrt.GoProc(pc, "client-handshake", func() {
			sess[0], errs[0] = newSession(confC, connC, true)
			if errs[0] != nil {
				_ = connC.Close()
			}
			ret[0], returned[0] = simrt.Now(), true
			simrt.Send(hs, 0)
		})
		bound := simrt.NewTimer(confC.InitializeTimeout + 20*time.Second)
		for got := 0; got < 2; {
			i, _, _ := simrt.Select(false, simrt.RecvCase(hs), simrt.RecvCase(bound.C))
			if i != 0 {
				break
			}
			got++
		}
		bound.Stop()
		alive := func(i int) bool { return !procs[i].Dead && !procs[i].Frozen }
		memfd := p.Cfg.MemFd
		tags := map[string]string{"mapping": "file"}
		if memfd {
			tags["mapping"] = "memfd"
		}
		if p.Fault != nil && faultAt >= 0 {
			tags["fault"] = p.Fault.Kind
		}
		// 1. every live side has returned within InitializeTimeout + slack
		for i := 0; i < 2; i++ {
			if !alive(i) {
				continue
			}
			if !returned[i] {
				simrt.FailTagged("C12.hang", tags, "the %s's session constructor has not returned %v after it was called (InitializeTimeout %v)", names[i], simrt.Now()-start, confC.InitializeTimeout)
				return
			}
			if errs[i] != nil && ret[i]-start > confC.InitializeTimeout+2*time.Second {
				simrt.FailTagged("C12.late_error", tags, "the %s's handshake failed only after %v (InitializeTimeout %v)", names[i], ret[i]-start, confC.InitializeTimeout)
				return
			}
		}
		ok0, ok1 := alive(0) && errs[0] == nil && sess[0] != nil, alive(1) && errs[1] == nil && sess[1] != nil
		var lateVerdict func()
		switch {
		case ok0 && ok1:
			simrt.Count("probe.hs_both_ok", 1)
			if !hsCheckPair(pc, ps, sess[0], sess[1], memfd, tags, true) {
				return
			}
		case ok0 != ok1 && alive(0) && alive(1):
			who, other := 0, 1
			if ok1 {
				who, other = 1, 0
			}
			t := map[string]string{}
			for a, b := range tags {
				t[a] = b
			}
			if who == 0 && !memfd && p.MmapFail != nil && p.MmapFail.Proc == 1 {
				// protocol 2 (file mapping) has no acknowledgement: the client is done once it has sent the paths and
				// cannot learn that the server failed to map them (finding F-V2NOACK). What it must do is notice the
				// server's departure afterwards.
				for i := 0; i < 5000 && !sess[0].IsClosed(); i++ {
					simrt.Sleep(time.Millisecond)
				}
				if !sess[0].IsClosed() {
					simrt.FailTagged("C12.one_sided_stays_open", tags, "the server failed to establish the session (%v) and closed the connection, but the client's session is still open 5 s later", errs[1])
					return
				}
				t["v2_no_ack"] = "server_failed_after_metadata"
				// the recorded finding must not hide what else may be wrong in this run: it is reported after the
				// clean-up checks below have passed
				lateVerdict = func() {
					simrt.FailTagged("C12.one_sided", t, "session establishment succeeded on the %s but failed on the %s (%v)", names[who], names[other], errs[other])
				}
				break
			}
			simrt.FailTagged("C12.one_sided", t, "session establishment succeeded on the %s but failed on the %s (%v)", names[who], names[other], errs[other])
			return
		}
		// 2. after closing whatever was created nothing is left behind
		for i := 0; i < 2; i++ {
			if alive(i) && sess[i] != nil {
				_ = sess[i].Close()
			}
		}
		simrt.Sleep(5 * time.Second)
		for i := 0; i < 2; i++ {
			if !alive(i) {
				continue
			}
			c := k.CensusOf(procs[i])
			var socks []string
			for _, fd := range c.SimFds {
				if kind := k.FdKind(fd); kind != "epoll" {
					socks = append(socks, fmt.Sprintf("%d:%s", fd, kind))
				}
			}
			if len(socks) > 0 || len(c.RealFds) > 0 || c.Mappings > 0 {
				t := map[string]string{}
				for a, b := range tags {
					t[a] = b
				}
				if len(c.RealFds) == 0 && c.Mappings == 0 {
					t["leak"] = "socket_descriptor_only"
				}
				if errs[i] != nil {
					t["outcome"] = "failed"
				}
				simrt.FailTagged("C12.resource_left", t, "the %s process still holds descriptors %v, memfds %v, %d mapping(s) after the handshake (error: %v) and Close", names[i], socks, c.RealFds, c.Mappings, errs[i])
				return
			}
		}
		if alive(0) && alive(1) && !p.Stale {
			if ents, _ := os.ReadDir(dir); len(ents) > 0 {
				nm := []string{}
				for _, e := range ents {
					nm = append(nm, e.Name())
				}
				simrt.FailTagged("C12.resource_left", tags, "files left behind in the shared-memory directory: %v", nm)
				return
			}
		}
		if lateVerdict != nil {
			lateVerdict()
		}
	}
	return pm, main
}

// hsCheckPair: both ends report success - they must have settled on the lower common version and must really share
// the buffer and queue memory (checked by writing through one mapping and reading through the other).
func hsCheckPair(pc, ps *simrt.Proc, cli, srv *Session, memfd bool, tags map[string]string, queues bool) bool {
	want := uint8(2)
	if memfd {
		// what each side announced: its generation if the library consulted it, else this build's own
		annC, annS := int(maxSupportProtoVersion), int(maxSupportProtoVersion)
		if pc.ProtoGenSeen {
			annC = pc.ProtoGen
		}
		if ps.ProtoGenSeen {
			annS = ps.ProtoGen
		}
		want = uint8(minInt(annC, annS))
		if annC != annS {
			simrt.Count("probe.hs_generations_differ_both_ok", 1)
		}
	}
	if cli.communicationVersion != want || srv.communicationVersion != want {
		simrt.FailTagged("C12.version", tags, "negotiated versions: client %d, server %d, expected the lower common version %d on both", cli.communicationVersion, srv.communicationVersion, want)
		return false
	}
	// the very same buffer memory: write through the client's mapping, read through the server's
	buf, err := cli.bufferManager.allocShmBuffer(8)
	if err != nil {
		simrt.FailTagged("C12.alloc", tags, "allocation on a fresh session failed: %v", err)
		return false
	}
	copy(buf.data, []byte{0xde, 0xad, 0xbe, 0xef, 1, 2, 3, 4})
	buf.writeIndex = 8
	buf.update()
	sl, err := srv.bufferManager.readBufferSlice(buf.offsetInShm)
	if err != nil || sl.size() != 8 || string(sl.data[:8]) != string([]byte{0xde, 0xad, 0xbe, 0xef, 1, 2, 3, 4}) {
		simrt.FailTagged("C12.memory_identity", tags, "bytes written through the client's buffer mapping are not visible through the server's mapping at offset %d (err %v)", buf.offsetInShm, err)
		return false
	}
	if &cli.bufferManager.mem[0] == &srv.bufferManager.mem[0] {
		simrt.Count("probe.hs_shared_manager_object", 1)
	}
	srv.bufferManager.recycleBuffer(sl)
	if len(cli.bufferManager.lists) != len(srv.bufferManager.lists) {
		simrt.FailTagged("C12.layout", tags, "client sees %d size classes, server %d", len(cli.bufferManager.lists), len(srv.bufferManager.lists))
		return false
	}
	for i := range cli.bufferManager.lists {
		a, b := cli.bufferManager.lists[i], srv.bufferManager.lists[i]
		if *a.cap != *b.cap || *a.capPerBuffer != *b.capPerBuffer || a.bufferRegionOffsetInShm != b.bufferRegionOffsetInShm {
			simrt.FailTagged("C12.layout", tags, "size class %d differs between the two ends", i)
			return false
		}
	}
	if !queues {
		return true // sessions of one process share the buffer region, every session has its own queues
	}
	// queues are cross-wired
	e1 := queueElement{seqID: 7, offsetInShmBuf: 11, status: 13}
	if err := cli.queueManager.sendQueue.put(e1); err != nil {
		simrt.FailTagged("C12.queue", tags, "put on the client's send queue: %v", err)
		return false
	}
	if got, err := srv.queueManager.recvQueue.pop(); err != nil || got != e1 {
		simrt.FailTagged("C12.queue_wiring", tags, "what the client enqueued on its send queue did not come out of the server's receive queue (%+v, %v)", got, err)
		return false
	}
	e2 := queueElement{seqID: 8, offsetInShmBuf: 12, status: 14}
	_ = srv.queueManager.sendQueue.put(e2)
	if got, err := cli.queueManager.recvQueue.pop(); err != nil || got != e2 {
		simrt.FailTagged("C12.queue_wiring", tags, "what the server enqueued on its send queue did not come out of the client's receive queue (%+v, %v)", got, err)
		return false
	}
	return true
}

// hsTwin: several sessions between the same two processes established concurrently (shared buffer region).
func hsTwin(s *simrt.Sim, k *ssys.Kernel, p *hsPlan, pc, ps *simrt.Proc, dir string) {
	n := p.Twin
	memfd := p.Cfg.MemFd
	tags := map[string]string{"mapping": "file", "twin": "yes"}
	if memfd {
		tags["mapping"] = "memfd"
	}
	cli, srv := make([]*Session, n), make([]*Session, n)
	errC, errS := make([]error, n), make([]error, n)
	hs := make(chan int, 2*n)
	start := simrt.Now()
	timeout := time.Duration(p.InitTimeoutMs) * time.Millisecond
	for i := 0; i < n; i++ {
		i := i
		confC, confS := p.Cfg.config(dir, "c"), p.Cfg.config(dir, "s")
		confC.QueuePath += fmt.Sprintf("_%d", i)
		confS.QueuePath += fmt.Sprintf("_%d", i)
		confC.InitializeTimeout, confS.InitializeTimeout = timeout, timeout
		addrC, addrS := fmt.Sprintf("@hs-c%d", i), "@hs-s"
		if p.Transport == "tcp" {
			addrC, addrS = fmt.Sprintf("127.0.0.1:4000%d", i+1), "127.0.0.1:6666"
		}
		fdC, fdS := k.SocketPair(pc, ps, p.Transport, addrC, addrS)
		connC, connS := simnet.WrapFd(fdC), simnet.WrapFd(fdS)
		simrt.GoProc(ps, "server-handshake", func() {
			srv[i], errS[i] = Server(connS, confS)
			if errS[i] != nil {
				_ = connS.Close()
			}
			simrt.Send(hs, i)
		})
		simrt.GoProc(pc, "client-handshake", func() {
			cli[i], errC[i] = newSession(confC, connC, true)
			if errC[i] != nil {
				_ = connC.Close()
			}
			simrt.Send(hs, i)
		})
	}
	bound := simrt.NewTimer(timeout + 20*time.Second)
	for got := 0; got < 2*n; got++ {
		if i, _, _ := simrt.Select(false, simrt.RecvCase(hs), simrt.RecvCase(bound.C)); i != 0 {
			simrt.FailTagged("C12.hang", tags, "%d concurrent handshakes: not every session constructor has returned %v after it was called (InitializeTimeout %v)", n, simrt.Now()-start, timeout)
			return
		}
	}
	bound.Stop()
	for i := 0; i < n; i++ {
		okC, okS := errC[i] == nil && cli[i] != nil, errS[i] == nil && srv[i] != nil
		switch {
		case okC && okS:
			simrt.Count("probe.hs_twin_both_ok", 1)
			if !hsCheckPair(pc, ps, cli[i], srv[i], memfd, tags, true) {
				return
			}
		case okC != okS:
			simrt.FailTagged("C12.one_sided", tags, "session %d of %d concurrent ones: establishment succeeded on one end only (client error %v, server error %v)", i, n, errC[i], errS[i])
			return
		}
	}
	// the sessions share one buffer region: what is written through any client session's mapping must be visible
	// through every server session's mapping
	for i := 0; i < n; i++ {
		for j := 0; j < n; j++ {
			if i != j && cli[i] != nil && srv[j] != nil && errC[i] == nil && errS[j] == nil && cli[j] != nil && errC[j] == nil {
				if !hsCheckPair(pc, ps, cli[i], srv[j], memfd, map[string]string{"mapping": tags["mapping"], "twin": "cross"}, false) {
					return
				}
			}
		}
	}
	for i := 0; i < n; i++ {
		if cli[i] != nil {
			_ = cli[i].Close()
		}
		if srv[i] != nil {
			_ = srv[i].Close()
		}
	}
	simrt.Sleep(5 * time.Second)
	for pi, pr := range []*simrt.Proc{pc, ps} {
		c := k.CensusOf(pr)
		var socks []string
		for _, fd := range c.SimFds {
			if kind := k.FdKind(fd); kind != "epoll" {
				socks = append(socks, fmt.Sprintf("%d:%s", fd, kind))
			}
		}
		if len(socks) > 0 || len(c.RealFds) > 0 || c.Mappings > 0 {
			simrt.FailTagged("C12.resource_left", tags, "the %s process still holds descriptors %v, memfds %v, %d mapping(s) after %d concurrent handshakes and Close", []string{"client", "server"}[pi], socks, c.RealFds, c.Mappings, n)
			return
		}
	}
	if ents, _ := os.ReadDir(dir); len(ents) > 0 {
		nm := []string{}
		for _, e := range ents {
			nm = append(nm, e.Name())
		}
		simrt.FailTagged("C12.resource_left", tags, "files left behind in the shared-memory directory: %v", nm)
	}
}
