//go:build verif

package shmipc

// Scenario evconn (C18): the repository's real epoll dispatcher and connection
// event handler on the simulated kernel. A writer process writes events of
// 1 B .. several MiB with write/writev; the reader process' callback consumes a
// tape-chosen prefix per invocation. Socket buffers 1 B .. 256 KiB, partial
// writes, EAGAIN, fragmented reads. Oracle: the callback always sees exactly
// the not yet consumed bytes followed by new ones (in order, nothing lost,
// repeated or invented), and everything written is eventually offered.

import (
	"encoding/json"
	"time"

	"github.com/cloudwego/shmipc-go/simrt"
	"github.com/cloudwego/shmipc-go/simrt/simnet"
	"github.com/cloudwego/shmipc-go/simrt/ssys"
)

type evWrite struct {
	Sizes []int `json:"sizes"` // one size: write(); several: writev()
}

type evPlan struct {
	Sim      SimKnobs  `json:"sim"`
	Cfg      sessCfg   `json:"cfg"`
	Writes   []evWrite `json:"writes"`
	Consume  []int     `json:"consume"` // per callback invocation (cycled): -1 all, 0 nothing, n>0 at most n bytes, -2 half
	StallMs  int       `json:"reader_stall_ms,omitempty"`
	// HoldBytes > 0: the callback consumes nothing until it is shown at least this many bytes at once (the read buffer
	// has to grow beyond them), then takes everything (the buffer may shrink) and goes on with the Consume pattern
	// while the writer is still sending
	HoldBytes int `json:"hold_bytes,omitempty"`
}

type evconnScenario struct{}

func init() { scenarios["evconn"] = evconnScenario{} }

func (evconnScenario) Decode(raw json.RawMessage) (interface{}, error) {
	var p evPlan
	err := json.Unmarshal(raw, &p)
	return &p, err
}
func (evconnScenario) Knobs(plan interface{}) SimKnobs { return plan.(*evPlan).Sim }

func (evconnScenario) Gen(r *Rng, tier string, opts map[string]string) interface{} {
	p := &evPlan{Sim: genKnobs(r, false), Cfg: genSessCfg(r)}
	p.Sim.HorizonSec = 300
	p.Sim.MaxSteps = 1500000
	big := r.Chance(1, 12)
	n := 1 + r.Intn(8)
	budget := 300000
	if p.Cfg.SockBuf*1500 < budget {
		budget = p.Cfg.SockBuf * 1500 // every buffer-full costs an EAGAIN round trip through the event loop
	}
	if big {
		budget = 12 << 20
		p.Cfg.SockBuf = r.Pick(65536, 262144, 1<<20)
		p.Sim.PointMean = 0
	}
	for i := 0; i < n && budget > 0; i++ {
		var w evWrite
		k := 1
		if r.Chance(1, 3) {
			k = 2 + r.Intn(5)
		}
		for j := 0; j < k; j++ {
			sz := r.Pick(1, 7, 8, 9, 16, 100, 4095, 4096, 4097, 65535, 65536, 65537, 200000)
			if big && r.Chance(1, 2) {
				sz = r.Pick(1<<20, (1<<20)+1, 3<<20, (4<<20)+7, 5<<20)
			}
			if sz > budget {
				sz = 1 + budget/2
			}
			if sz < 1 {
				sz = 1 // (an empty element in writev is not a case any caller produces)
			}
			budget -= sz
			w.Sizes = append(w.Sizes, sz)
		}
		p.Writes = append(p.Writes, w)
	}
	nc := 1 + r.Intn(5)
	for i := 0; i < nc; i++ {
		p.Consume = append(p.Consume, r.Pick(-1, -1, -2, 0, 1, 7, 8, 100, 5000, 70000))
	}
	if big && r.Chance(1, 2) {
		// grow, shrink, carry on: several MiB pile up unconsumed, are taken in one go while more is arriving, and the
		// callbacks that follow leave partial tails behind
		p.HoldBytes = r.Pick((4<<20)+1, 5<<20, (6<<20)+12345)
		p.Writes = nil
		for total, goal := 0, p.HoldBytes+r.Pick(1<<20, 2<<20, 3<<20); total < goal; {
			sz := r.Pick(300000, 1<<20, (1<<20)+1, 2<<20)
			p.Writes = append(p.Writes, evWrite{Sizes: []int{sz}})
			total += sz
		}
		p.Consume = nil
		for i := 0; i < 2+r.Intn(3); i++ {
			p.Consume = append(p.Consume, r.Pick(-2, 1, 100, 5000, 70000, 300000))
		}
	}
	if r.Chance(1, 4) {
		p.StallMs = r.Pick(5, 100, 1500)
	}
	return p
}

func (evconnScenario) Shrink(plan interface{}) []interface{} {
	p := plan.(*evPlan)
	clone := func() *evPlan {
		b, _ := json.Marshal(p)
		var q evPlan
		_ = json.Unmarshal(b, &q)
		return &q
	}
	var out []interface{}
	for i := range p.Writes {
		if len(p.Writes) > 1 {
			q := clone()
			q.Writes = append(q.Writes[:i], q.Writes[i+1:]...)
			out = append(out, q)
		}
		if len(p.Writes[i].Sizes) > 1 {
			q := clone()
			q.Writes[i].Sizes = q.Writes[i].Sizes[:1]
			out = append(out, q)
		}
		for j, sz := range p.Writes[i].Sizes {
			if sz > 16 {
				q := clone()
				q.Writes[i].Sizes[j] = sz / 2
				out = append(out, q)
			}
		}
	}
	if len(p.Consume) > 1 {
		q := clone()
		q.Consume = q.Consume[:1]
		out = append(out, q)
	}
	if p.Cfg.FragR || p.Cfg.FragW || p.Cfg.Spurious != 0 {
		q := clone()
		q.Cfg.FragR, q.Cfg.FragW, q.Cfg.Spurious = false, false, 0
		out = append(out, q)
	}
	if p.Sim.PointMean != 0 {
		q := clone()
		q.Sim.PointMean = 0
		out = append(out, q)
	}
	return out
}

func (evconnScenario) Post(plan interface{}, res *simrt.Result, rec *RunRecord) {
	rec.Nontrivial = res.Counters["evconn.bytes"] > 0 && res.Switches > 20
}

func evByte(i int64) byte {
	x := uint64(i)*0x9e3779b97f4a7c15 + 12345
	x ^= x >> 29
	return byte(x)
}

type evReader struct {
	held     bool // HoldBytes reached and taken
	bufLen   int  // length of the connection's read buffer at the previous callback
	plan     *evPlan
	consumed int64 // bytes committed so far
	offered  int64 // highest stream position ever shown to the callback
	written  *int64
	calls    int
	drain    bool
	closedL  int
	closedR  int
}

func (e *evReader) onEventData(buf []byte, conn eventConn) error {
	e.calls++
	// the callback sees the not yet consumed bytes followed by the new ones
	for i := range buf {
		if buf[i] != evByte(e.consumed+int64(i)) {
			simrt.Fail("C18.wrong_bytes", "callback invocation %d: byte %d of the buffer (stream position %d) is not the byte that was written there (consumed so far %d, buffer length %d)", e.calls, i, e.consumed+int64(i), e.consumed, len(buf))
			return nil
		}
	}
	if end := e.consumed + int64(len(buf)); end > e.offered {
		e.offered = end
	}
	if e.offered > *e.written {
		simrt.Fail("C18.invented", "the callback was shown %d bytes but only %d were written", e.offered, *e.written)
		return nil
	}
	if h, ok := conn.(*connEventHandler); ok {
		l := len(h.readBuffer)
		if l > 4<<20 {
			simrt.Count("probe.ev_read_buffer_over_4MiB", 1)
		}
		if l > e.bufLen && e.bufLen != 0 {
			simrt.Count("probe.ev_read_buffer_grew", 1)
		}
		if l < e.bufLen {
			simrt.Count("probe.ev_read_buffer_shrank", 1)
		}
		e.bufLen = l
	}
	n := len(buf)
	if !e.drain && e.plan.HoldBytes > 0 && !e.held {
		if len(buf) < e.plan.HoldBytes {
			n = 0
		} else {
			e.held = true
		}
	} else if !e.drain && len(e.plan.Consume) > 0 {
		c := e.plan.Consume[(e.calls-1)%len(e.plan.Consume)]
		switch {
		case c == -1:
		case c == -2:
			n = len(buf) / 2
		case c < len(buf):
			n = c
		}
	}
	conn.commitRead(n)
	e.consumed += int64(n)
	return nil
}
func (e *evReader) onRemoteClose() { e.closedR++ }
func (e *evReader) onLocalClose()  { e.closedL++ }

type nopEvCb struct{}

func (nopEvCb) onEventData(buf []byte, conn eventConn) error { conn.commitRead(len(buf)); return nil }
func (nopEvCb) onRemoteClose()                               {}
func (nopEvCb) onLocalClose()                                {}

func (evconnScenario) Run(s *simrt.Sim, plan interface{}, opts map[string]string) (*simrt.Proc, func()) {
	p := plan.(*evPlan)
	k := ssys.NewKernel(s, p.Cfg.kernel())
	installGlobals(s)
	pm := newProc(s, "harness", 7000)
	pw := newProc(s, "writer", 7001)
	pr := newProc(s, "reader", 7002)
	var written int64
	rd := &evReader{plan: p, written: &written}
	s.OnEnd = append(s.OnEnd, func() {
		s.Counters["evconn.bytes"] = written
		s.Counters["evconn.callbacks"] = int64(rd.calls)
	})
	main := func() {
		fdW, fdR := k.SocketPair(pw, pr, "unix", "@w", "@r")
		var wconn, rconn eventConn
		mk := func(pc *simrt.Proc, fd int, cb eventConnCallback, out *eventConn) {
			done := make(chan struct{})
			simrt.GoProc(pc, "setup", func() {
				defer close(done)
				c := simnet.WrapFd(fd)
				f, err := c.File()
				_ = c.Close()
				if err != nil {
					simrt.Fail("harness.setup", "File: %v", err)
					return
				}
				ensureDefaultDispatcherInit()
				ec := defaultDispatcher.newConnection(f)
				if err := ec.setCallback(cb); err != nil {
					simrt.Fail("harness.setup", "setCallback: %v", err)
					return
				}
				*out = ec
			})
			simrt.Recv(done)
		}
		mk(pr, fdR, rd, &rconn)
		mk(pw, fdW, nopEvCb{}, &wconn)
		if simrt.Failed() {
			return
		}
		if p.StallMs > 0 {
			s.Stall(pr, time.Duration(p.StallMs)*time.Millisecond)
			simrt.Count("fault.process_stall", 1)
		}
		wdone := make(chan struct{})
		simrt.GoProc(pw, "writer", func() {
			defer close(wdone)
			pos := int64(0)
			for _, w := range p.Writes {
				if simrt.Failed() {
					return
				}
				var bufs [][]byte
				total := 0
				for _, sz := range w.Sizes {
					b := make([]byte, sz)
					for i := range b {
						b[i] = evByte(pos + int64(total) + int64(i))
					}
					total += sz
					bufs = append(bufs, b)
				}
				// everything handed to write counts as written as soon as the call starts (bytes may arrive before it returns)
				written += int64(total)
				var err error
				if len(bufs) == 1 {
					err = wconn.write(bufs[0])
				} else {
					err = wconn.writev(bufs...)
				}
				if err != nil {
					simrt.Fail("C18.write_error", "write of %d bytes failed on a healthy connection: %v", total, err)
					return
				}
				pos += int64(total)
			}
		})
		t := simrt.NewTimer(200 * time.Second)
		i, _, _ := simrt.Select(false, simrt.RecvCase(wdone), simrt.RecvCase(t.C))
		t.Stop()
		if i != 0 {
			simrt.Fail("C18.write_hang", "the writer is still blocked after 200 s (virtual) although the reader keeps consuming")
			return
		}
		if simrt.Failed() {
			return
		}
		simrt.Sleep(5 * time.Second)
		// everything written has been offered (the callback may have refused to consume it)
		if rd.offered != written && !simrt.Failed() {
			// a callback that consumes nothing is only called again when new bytes arrive: what was offered must still cover every byte
			simrt.Fail("C18.not_offered", "%d bytes were written, the callback was only ever shown %d (consumed %d) although everything has been quiet for 5 s", written, rd.offered, rd.consumed)
			return
		}
		// let the reader drain: one more byte makes the callback run again and consume all
		rd.drain = true
		extra := []byte{evByte(written)}
		written++
		done2 := make(chan struct{})
		simrt.GoProc(pw, "writer-tail", func() { defer close(done2); _ = wconn.write(extra) })
		simrt.Recv(done2)
		simrt.Sleep(3 * time.Second)
		if rd.consumed != written && !simrt.Failed() {
			simrt.Fail("C18.lost", "%d bytes were written but after a final draining callback only %d were consumed", written, rd.consumed)
			return
		}
		cl := make(chan struct{})
		simrt.GoProc(pw, "closer", func() { defer close(cl); _ = wconn.close() })
		simrt.Recv(cl)
		simrt.Sleep(2 * time.Second)
		if rd.closedR != 1 && !simrt.Failed() {
			simrt.Fail("C18.remote_close", "the reader's connection saw %d remote-close notifications after the writer closed, expected 1", rd.closedR)
		}
	}
	return pm, main
}
