//go:build verif

package shmipc

// Shared world-building helpers for session-level scenarios: simulated
// processes with their own copies of the package's per-process globals, run
// directories, session pairs over the simulated kernel.

import (
	"fmt"
	"os"
	"time"
	"unsafe"

	"github.com/cloudwego/shmipc-go/simrt"
	"github.com/cloudwego/shmipc-go/simrt/simnet"
	ssync "github.com/cloudwego/shmipc-go/simrt/ssync"
	"github.com/cloudwego/shmipc-go/simrt/ssys"
)

// procGlobals is one simulated process's copy of the package-level state.
type procGlobals struct {
	bms  *globalBufferManager
	disp dispatcher
	once ssync.Once
	sm   *SessionManager
}

func installGlobals(s *simrt.Sim) {
	s.SwapProc = func(from, to *simrt.Proc) {
		if from != nil {
			if g, ok := from.Data.(*procGlobals); ok {
				g.bms, g.disp, g.once, g.sm = bufferManagers, defaultDispatcher, dispatcherInitOnce, globalSM
			}
		}
		if to != nil {
			if g, ok := to.Data.(*procGlobals); ok {
				bufferManagers, defaultDispatcher, dispatcherInitOnce, globalSM = g.bms, g.disp, g.once, g.sm
			}
		}
	}
	// discriminator of finding F-ABA: an ABA event (CAS succeeded although the word was rewritten since this goroutine
	// loaded the expected value) on the head of a free list of any buffer manager of any simulated process
	s.OnABA = func(addr uintptr) string {
		has := func(g *globalBufferManager) bool {
			if g == nil {
				return false
			}
			for _, bm := range g.bms {
				for _, l := range bm.lists {
					if simrt.Norm(unsafe.Pointer(l.head)) == addr {
						return true
					}
				}
			}
			return false
		}
		if has(bufferManagers) {
			return "bufferList.head"
		}
		for _, p := range s.Procs() {
			if g, ok := p.Data.(*procGlobals); ok && has(g.bms) {
				return "bufferList.head"
			}
		}
		return ""
	}
	simrt.PtrKey = func(k interface{}) (int64, bool) {
		switch v := k.(type) {
		case *Session:
			return int64(v.connFd), true
		}
		return 0, false
	}
}

func newProc(s *simrt.Sim, name string, pid int) *simrt.Proc {
	p := s.NewProc(name, pid)
	p.Data = &procGlobals{bms: &globalBufferManager{bms: make(map[string]*bufferManager, 8)}, disp: newEpollDispatcher()}
	return p
}

var runDirCounter int

// newRunDir creates a private directory on tmpfs for the run's files and sockets.
func newRunDir(s *simrt.Sim) string {
	runDirCounter++
	d := fmt.Sprintf("/dev/shm/vsim-%08d/%08d", os.Getpid(), runDirCounter) // fixed width: path lengths must not vary between runs
	_ = os.RemoveAll(d)
	if err := os.MkdirAll(d, 0o755); err != nil {
		panic(err)
	}
	s.OnEnd = append(s.OnEnd, func() { _ = os.RemoveAll(d) })
	return d
}

func init() {
	// stale directories of dead workers
	ents, _ := os.ReadDir("/dev/shm")
	for _, e := range ents {
		var pid int
		if n, _ := fmt.Sscanf(e.Name(), "vsim-%d", &pid); n == 1 {
			if _, err := os.Stat(fmt.Sprintf("/proc/%d", pid)); err != nil {
				_ = os.RemoveAll("/dev/shm/" + e.Name())
			}
		}
	}
}

type sessCfg struct {
	Slices   [][2]uint32 `json:"slices"` // (size, percent)
	MemCap   uint32      `json:"mem_cap"`
	QueueCap uint32      `json:"queue_cap"`
	MemFd    bool        `json:"memfd"`
	SockBuf  int         `json:"sock_buf"`
	FragR    bool        `json:"frag_reads,omitempty"`
	FragW    bool        `json:"frag_writes,omitempty"`
	Spurious int         `json:"spurious_eagain,omitempty"`
	WriteTimeoutMs int   `json:"conn_write_timeout_ms,omitempty"`
	InitTimeoutMs  int   `json:"init_timeout_ms,omitempty"`
}

func genSessCfg(r *Rng) sessCfg {
	c := sessCfg{MemCap: 1 << 20}
	switch r.Intn(7) {
	case 0:
		c.Slices = [][2]uint32{{64, 100}}
	case 1:
		c.Slices = [][2]uint32{{256, 50}, {1024, 50}}
	case 2:
		c.Slices = [][2]uint32{{4096, 100}}
	case 3:
		c.Slices = [][2]uint32{{1024, 30}, {16384, 40}, {65536, 30}}
	case 4:
		c.Slices = [][2]uint32{{8192 - 20, 50}, {32*1024 - 20, 30}, {128*1024 - 20, 20}}
		c.MemCap = 2 << 20
	case 5:
		c.Slices = [][2]uint32{{4096, 70}, {512, 30}} // unsorted pair
	default:
		c.Slices = [][2]uint32{{100, 10}, {3000, 90}}
	}
	c.QueueCap = uint32(r.Pick(1, 2, 3, 4, 8, 64, 8192))
	c.MemFd = r.Chance(1, 2)
	c.SockBuf = r.Pick(1, 7, 64, 512, 4096, 65536, 262144)
	c.FragR = r.Chance(1, 3)
	c.FragW = r.Chance(1, 3)
	if r.Chance(1, 6) {
		c.Spurious = r.Pick(3, 10, 50)
	}
	return c
}

func (c sessCfg) kernel() ssys.KConfig {
	return ssys.KConfig{SockBuf: c.SockBuf, FragReads: c.FragR, FragWrites: c.FragW, SpuriousAgain: c.Spurious}
}

func (c sessCfg) config(dir, tag string) *Config {
	conf := DefaultConfig()
	conf.LogOutput = nil
	conf.ShareMemoryBufferCap = c.MemCap
	conf.QueueCap = c.QueueCap
	conf.BufferSliceSizes = nil
	for _, sp := range c.Slices {
		conf.BufferSliceSizes = append(conf.BufferSliceSizes, &SizePercentPair{Size: sp[0], Percent: sp[1]})
	}
	conf.ShareMemoryPathPrefix = dir + "/shm_" + tag
	conf.QueuePath = dir + "/queue_" + tag
	if c.MemFd {
		conf.MemMapType = MemMapTypeMemFd
	}
	if c.WriteTimeoutMs > 0 {
		conf.ConnectionWriteTimeout = time.Duration(c.WriteTimeoutMs) * time.Millisecond
	}
	if c.InitTimeoutMs > 0 {
		conf.InitializeTimeout = time.Duration(c.InitTimeoutMs) * time.Millisecond
	}
	conf.LogOutput = discardWriter{}
	return conf
}

type discardWriter struct{}

func (discardWriter) Write(p []byte) (int, error) { return len(p), nil }

// sessPair establishes one client/server session pair over a simulated socket
// pair. Must be called from a goroutine of the client process.
func sessPair(pc, ps *simrt.Proc, confC, confS *Config, tag string) (cli, srv *Session, errC, errS error) {
	fdC, fdS := ssys.K.SocketPair(pc, ps, "unix", "@cli-"+tag, "@srv-"+tag)
	connC, connS := simnet.WrapFd(fdC), simnet.WrapFd(fdS)
	done := make(chan struct{})
	simrt.GoProc(ps, "server-handshake", func() {
		defer close(done)
		srv, errS = Server(connS, confS)
		if errS != nil {
			_ = connS.Close()
		}
	})
	cli, errC = newSession(confC, connC, true)
	if errC != nil {
		_ = connC.Close()
	}
	simrt.Recv(done)
	return
}

// shmInUse returns the number of buffers not in the free lists of a manager.
func shmInUse(bm *bufferManager) (n int) {
	for _, l := range bm.lists {
		n += int(*l.cap) - int(*l.size)
	}
	return
}
