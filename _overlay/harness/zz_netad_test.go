//go:build verif

package shmipc

// Scenario netad (C19): the net.Listener / net.Conn adapter (Listen, Accept,
// streamWrapper) over the simulated kernel: several client sessions and
// streams, Write/Read of arbitrary sizes, deadlines, closes from either side
// and the listener closed at a tape-chosen moment.

import (
	"os"
	"encoding/binary"
	"encoding/json"
	"fmt"
	"net"
	"time"

	"github.com/cloudwego/shmipc-go/simrt"
	"github.com/cloudwego/shmipc-go/simrt/simnet"
	"github.com/cloudwego/shmipc-go/simrt/ssys"
)

type naStream struct {
	Writes     []int `json:"writes"`      // sizes of client Write calls (the first carries the stream key)
	ReadSizes  []int `json:"read_sizes"`  // server-side Read buffer sizes (cycled)
	Echo       int   `json:"echo"`        // bytes the server writes back after reading everything
	CloseBy    int   `json:"close_by"`    // 0 client closes when done, 1 server closes when done, 2 both
	DeadlineMs int   `json:"deadline_ms"` // server read deadline (0 none)
	StartMs    int   `json:"start_ms"`
	PastRead   int   `json:"past_deadline_read,omitempty"` // the n-th server Read (1-based) is issued with a deadline that has already expired
	sessionLeaves bool // (derived) the stream's client session closes on its own during the run
}

type naPlan struct {
	Sim      SimKnobs     `json:"sim"`
	Cfg      sessCfg      `json:"cfg"`
	Sessions [][]naStream `json:"sessions"`
	CloseAt  int          `json:"listener_close_at_ms"` // -1: after everything finished
	Backlog  int          `json:"backlog"`
	AcceptDelayMs int     `json:"accept_delay_ms,omitempty"`   // the application accepts slowly: streams wait in the backlog
	SessionLeaveMs []int  `json:"session_leave_ms,omitempty"`  // per client session: it closes its session at this time (-1 never)
	DoubleClose bool      `json:"double_close,omitempty"`      // server connections are closed by two goroutines at once
}

type netadScenario struct{}

func init() { scenarios["netad"] = netadScenario{} }

func (netadScenario) Decode(raw json.RawMessage) (interface{}, error) {
	var p naPlan
	err := json.Unmarshal(raw, &p)
	return &p, err
}
func (netadScenario) Knobs(plan interface{}) SimKnobs { return plan.(*naPlan).Sim }

func (netadScenario) Gen(r *Rng, tier string, opts map[string]string) interface{} {
	p := &naPlan{Sim: genKnobs(r, false), Cfg: genSessCfg(r)}
	p.Sim.HorizonSec = 600
	p.Backlog = r.Pick(1, 2, 8, 4096)
	ns := 1 + r.Intn(3)
	for i := 0; i < ns; i++ {
		var ss []naStream
		nst := 1 + r.Intn(3)
		for j := 0; j < nst; j++ {
			st := naStream{CloseBy: r.Intn(3), StartMs: r.Pick(0, 0, 1, 10, 100, 800)}
			nw := 1 + r.Intn(4)
			for k := 0; k < nw; k++ {
				sz := anchoredSize(r, p.Cfg)
				if sz > 30000 {
					sz = 30000
				}
				if k == 0 && sz < 8 {
					sz = 8
				}
				st.Writes = append(st.Writes, sz)
			}
			nr := 1 + r.Intn(3)
			for k := 0; k < nr; k++ {
				st.ReadSizes = append(st.ReadSizes, r.Pick(1, 7, 100, 4096, 70000))
			}
			if r.Chance(1, 2) {
				st.Echo = r.Pick(1, 100, 5000)
			}
			if r.Chance(1, 4) {
				st.DeadlineMs = r.Pick(10, 200, 3000)
			}
			if r.Chance(1, 5) {
				st.PastRead = r.Pick(1, 2, 3)
			}
			ss = append(ss, st)
		}
		p.Sessions = append(p.Sessions, ss)
	}
	p.CloseAt = -1
	if r.Chance(1, 2) {
		p.CloseAt = r.Pick(0, 1, 5, 50, 300, 1000)
	}
	if r.Chance(1, 3) {
		p.AcceptDelayMs = r.Pick(5, 50, 300)
	}
	for range p.Sessions {
		leave := -1
		if len(p.Sessions) > 1 && r.Chance(1, 4) {
			leave = r.Pick(1, 20, 150, 600)
		}
		p.SessionLeaveMs = append(p.SessionLeaveMs, leave)
	}
	p.DoubleClose = r.Chance(1, 3)
	return p
}

func (netadScenario) Shrink(plan interface{}) []interface{} {
	p := plan.(*naPlan)
	clone := func() *naPlan {
		b, _ := json.Marshal(p)
		var q naPlan
		_ = json.Unmarshal(b, &q)
		return &q
	}
	var out []interface{}
	if len(p.Sessions) > 1 {
		for i := range p.Sessions {
			q := clone()
			q.Sessions = append(q.Sessions[:i], q.Sessions[i+1:]...)
			out = append(out, q)
		}
	}
	for i := range p.Sessions {
		if len(p.Sessions[i]) > 1 {
			for j := range p.Sessions[i] {
				q := clone()
				q.Sessions[i] = append(q.Sessions[i][:j], q.Sessions[i][j+1:]...)
				out = append(out, q)
			}
		}
		for j := range p.Sessions[i] {
			if len(p.Sessions[i][j].Writes) > 1 {
				q := clone()
				q.Sessions[i][j].Writes = q.Sessions[i][j].Writes[:1]
				out = append(out, q)
			}
			if p.Sessions[i][j].Echo > 0 {
				q := clone()
				q.Sessions[i][j].Echo = 0
				out = append(out, q)
			}
		}
	}
	if p.Cfg.FragR || p.Cfg.FragW || p.Cfg.Spurious != 0 {
		q := clone()
		q.Cfg.FragR, q.Cfg.FragW, q.Cfg.Spurious = false, false, 0
		out = append(out, q)
	}
	if p.Sim.PointMean != 0 {
		q := clone()
		q.Sim.PointMean = 0
		out = append(out, q)
	}
	return out
}

func (netadScenario) Post(plan interface{}, res *simrt.Result, rec *RunRecord) {
	rec.Nontrivial = res.Counters["netad.accepted"] > 0 && res.Switches > 200
}

// naAttribute (debugging aid) finds the key and position the bytes were generated for.
func naAttribute(b []byte) string {
	if len(b) < 6 {
		return "too short"
	}
	for key := uint32(0); key < 16; key++ {
		for _, k := range []uint32{key, key ^ 0x5555} {
			for i := 0; i < 100000; i++ {
				ok := true
				for j := range b {
					if naByte(k, i+j) != b[j] {
						ok = false
						break
					}
				}
				if ok {
					return fmt.Sprintf("key %#x position %d", k, i)
				}
			}
		}
	}
	return "nothing generated by this run"
}

func naByte(key uint32, i int) byte {
	x := key*2654435761 ^ uint32(i)*2246822519
	x ^= x >> 15
	return byte(x)
}

type naConnState struct {
	key       uint32
	accepted  int
	received  int // bytes the server read
	written   int // bytes the client's Write calls returned success for
	plan      *naStream
	cliClosed bool
	srvClosed bool
	srvDone   bool
	cliDone   bool
	echoGot   int
	cliStream *Stream // the client's end (transport bookkeeping for the discriminator of finding F-ORDER)
	usedShm   bool    // a Write of this stream went through the shared-memory queue
	closeViaSocket bool   // the client's close notification went through the socket (queue full)
	closeRunning   bool
	qfAtClose      uint64
	eofEarlyTagged bool
}

// cliClose closes the client's end and notes whether the notification had to go through the socket.
func (cs *naConnState) cliClose(st *Stream) {
	cs.qfAtClose = st.session.stats.queueFullErrorCount
	cs.closeRunning = true
	cs.cliClosed = true
	_ = st.Close()
	cs.closeRunning = false
	if st.session.stats.queueFullErrorCount != cs.qfAtClose {
		cs.closeViaSocket = true
	}
}

// switchTags: the writes of the stream (of any stream, when the connection cannot be attributed) used both the queue
// and the socket - the two channels are not ordered with respect to each other (finding F-ORDER).
func (w *naWorld) switchTags(cs *naConnState, base map[string]string) map[string]string {
	t := map[string]string{}
	for k, v := range base {
		t[k] = v
	}
	sw := func(c *naConnState) bool {
		if c == nil || c.cliStream == nil || !c.usedShm {
			return false
		}
		viaSocket := c.closeViaSocket || (c.closeRunning && c.cliStream.session.stats.queueFullErrorCount != c.qfAtClose)
		return c.cliStream.inFallbackState || viaSocket
	}
	if cs != nil {
		if sw(cs) {
			t["transport_switch"] = "yes"
		}
		return t
	}
	for _, c := range w.conns {
		if sw(c) {
			t["transport_switch"] = "yes"
		}
	}
	return t
}

type naWorld struct {
	plan     *naPlan
	sim      *simrt.Sim
	ps, pc   *simrt.Proc
	ln       net.Listener
	conns    map[uint32]*naConnState
	order    []uint32
	lnClosed bool
	lnCloseAt time.Duration
	acceptRet time.Duration
	acceptErr bool
	accepted int64
	sessions []*Session
	srvThreads int
	srvFin   chan int
}

func (netadScenario) Run(s *simrt.Sim, plan interface{}, opts map[string]string) (*simrt.Proc, func()) {
	p := plan.(*naPlan)
	ssys.NewKernel(s, p.Cfg.kernel())
	installGlobals(s)
	w := &naWorld{plan: p, sim: s, conns: map[uint32]*naConnState{}, srvFin: make(chan int, 64)}
	pm := newProc(s, "harness", 8000)
	w.ps = newProc(s, "server", 8001)
	w.pc = newProc(s, "client", 8002)
	dir := newRunDir(s)
	s.OnEnd = append(s.OnEnd, func() { s.Counters["netad.accepted"] = w.accepted })
	return pm, func() { w.main(dir) }
}

func (w *naWorld) main(dir string) {
	p := w.plan
	sock := dir + "/na.sock"
	simrt.PointsOn(false)
	mk := make(chan error, 1)
	simrt.GoProc(w.ps, "listen", func() {
		ln, err := ListenWithBacklog(sock, p.Backlog)
		w.ln = ln
		mk <- err
	})
	if err := simrt.Recv(mk); err != nil {
		simrt.Fail("harness.listen", "Listen: %v", err)
		return
	}
	simrt.GoProc(w.ps, "acceptor", func() {
		simrt.MarkDaemon()
		for {
			if p.AcceptDelayMs > 0 {
				simrt.Sleep(time.Duration(p.AcceptDelayMs) * time.Millisecond)
			}
			c, err := w.ln.Accept()
			if err != nil {
				w.acceptErr = true
				w.acceptRet = simrt.Now()
				return
			}
			w.accepted++
			w.srvThreads++
			simrt.GoProc(w.ps, "srv-conn", func() {
				w.serveConn(c)
				simrt.Send(w.srvFin, 1)
			})
		}
	})
	// client sessions
	key := uint32(0)
	cfin := make(chan int, 64)
	nthreads := 0
	for si, ss := range p.Sessions {
		var sess *Session
		done := make(chan error, 1)
		si := si
		simrt.GoProc(w.pc, "dial", func() {
			c, err := simnet.DialTimeout("unix", sock, time.Second)
			if err != nil {
				done <- err
				return
			}
			conf := p.Cfg.config(dir, fmt.Sprintf("c%d", si))
			s, err := newSession(conf, c, true)
			sess = s
			done <- err
		})
		if err := simrt.Recv(done); err != nil {
			if w.lnClosed {
				continue
			}
			simrt.Fail("harness.dial", "client session %d: %v", si, err)
			return
		}
		w.sessions = append(w.sessions, sess)
		if si < len(p.SessionLeaveMs) && p.SessionLeaveMs[si] >= 0 {
			leaveAt := p.SessionLeaveMs[si]
			for j := range ss {
				p.Sessions[si][j].sessionLeaves = true
			}
			sess := sess
			simrt.GoProc(w.pc, "session-leave", func() {
				simrt.Sleep(time.Duration(leaveAt) * time.Millisecond)
				simrt.SetGlobalTag("after_session_loss", "yes")
				_ = sess.Close()
			})
		}
		for j := range ss {
			key++
			cs := &naConnState{key: key, plan: &p.Sessions[si][j]}
			w.conns[key] = cs
			w.order = append(w.order, key)
			nthreads++
			sess := sess
			simrt.GoProc(w.pc, fmt.Sprintf("cli-%d", key), func() {
				w.clientStream(sess, cs)
				simrt.Send(cfin, 1)
			})
		}
	}
	simrt.PointsOn(true)
	if p.CloseAt >= 0 {
		simrt.GoProc(w.ps, "ln-closer", func() {
			simrt.Sleep(time.Duration(p.CloseAt) * time.Millisecond)
			w.lnClosed = true
			w.lnCloseAt = simrt.Now()
			simrt.SetGlobalTag("after_session_loss", "yes") // closing the listener ends its sessions: finding F-TEARDOWN
			_ = w.ln.Close()
		})
	}
	t := simrt.NewTimer(200 * time.Second)
	for n := 0; n < nthreads; {
		i, _, _ := simrt.Select(false, simrt.RecvCase(cfin), simrt.RecvCase(t.C))
		if i != 0 {
			simrt.Fail("C19.hang", "client stream threads are still blocked after 200 s (virtual)")
			return
		}
		n++
	}
	t.Stop()
	if simrt.Failed() {
		return
	}
	simrt.Sleep(10 * time.Second)
	// every stream that the peer could see surfaced exactly once (unless the listener was closed first)
	for _, k := range w.order {
		cs := w.conns[k]
		if cs.accepted > 1 {
			simrt.Fail("C19.accept_twice", "stream %d surfaced %d times as a net.Conn", k, cs.accepted)
			return
		}
		if cs.accepted == 0 && cs.written > 0 && !w.lnClosed && !cs.plan.sessionLeaves {
			simrt.Fail("C19.not_accepted", "stream %d wrote %d bytes successfully but never surfaced from Accept (everything has been quiet for 10 s)", k, cs.written)
			return
		}
		if cs.accepted == 1 && cs.srvDone && !cs.cliClosed && cs.received != cs.written && !w.lnClosed {
			// server thread finished reading on EOF/close without getting everything the client wrote successfully
		}
	}
	if !w.lnClosed {
		w.lnClosed = true
		w.lnCloseAt = simrt.Now()
		simrt.SetGlobalTag("after_session_loss", "yes")
		cl := make(chan struct{})
		simrt.GoProc(w.ps, "ln-close", func() { defer close(cl); _ = w.ln.Close() })
		simrt.Recv(cl)
	}
	simrt.Sleep(5 * time.Second)
	if !w.acceptErr {
		simrt.Fail("C19.accept_not_unblocked", "Accept is still blocked %v after the listener was closed", simrt.Now()-w.lnCloseAt)
		return
	}
	// server conn threads finish (their conns get closed by plan or by the peer's close)
	t2 := simrt.NewTimer(120 * time.Second)
	for n := 0; n < w.srvThreads; {
		i, _, _ := simrt.Select(false, simrt.RecvCase(w.srvFin), simrt.RecvCase(t2.C))
		if i != 0 {
			simrt.Fail("C19.hang", "server connection threads are still blocked 120 s after the listener was closed")
			return
		}
		n++
	}
	t2.Stop()
	simrt.Sleep(10 * time.Second)
	// closing the listener lets sessions end once their connections are closed: all accepted conns are closed by now
	c := ssys.K.CensusOf(w.ps)
	var socks []string
	for _, fd := range c.SimFds {
		if k := ssys.K.FdKind(fd); k != "epoll" {
			socks = append(socks, fmt.Sprintf("%d:%s", fd, k))
		}
	}
	if len(socks) > 0 || c.Mappings > 0 || len(c.RealFds) > 0 {
		tags := map[string]string{}
		if w.plan.CloseAt >= 0 {
			tags["listener_closed_during_traffic"] = "yes"
		}
		simrt.FailTagged("C19.sessions_not_ended", tags, "the listener is closed and every accepted connection is closed, but the server process still holds %v, %d mapping(s), memfds %v: a session did not end", socks, c.Mappings, c.RealFds)
		return
	}
	for _, s := range w.sessions {
		_ = s.Close()
	}
	simrt.Sleep(3 * time.Second)
}

func (w *naWorld) clientStream(sess *Session, cs *naConnState) {
	defer func() { cs.cliDone = true }()
	pl := cs.plan
	simrt.Sleep(time.Duration(pl.StartMs) * time.Millisecond)
	st, err := sess.OpenStream()
	if err != nil {
		return
	}
	if st == nil {
		simrt.Fail("C19.open_nil", "OpenStream returned neither a stream nor an error (session closed: %v)", sess.shutdown == 1)
		return
	}
	pos := 0
	for wi, sz := range pl.Writes {
		if simrt.Failed() {
			return
		}
		b := make([]byte, sz)
		for i := range b {
			b[i] = naByte(cs.key, pos+i)
		}
		if wi == 0 {
			binary.BigEndian.PutUint32(b[0:4], 0xC0DE0000|cs.key)
			binary.BigEndian.PutUint32(b[4:8], uint32(pl.totalBytes()))
		}
		cs.cliStream = st
		wasFallback := st.inFallbackState
		n, err := st.Write(b)
		simrt.Event("C key%d Write(%d) -> %d, %v", cs.key, len(b), n, err)
		if !wasFallback && !st.inFallbackState {
			cs.usedShm = true // (also when the call failed: the bytes may be in the queue)
		}
		if err != nil {
			break
		}
		if n != len(b) {
			simrt.Fail("C19.short_write", "Write(%d bytes) returned %d, nil", len(b), n)
			return
		}
		cs.written += n
		pos += n
	}
	if pl.Echo > 0 && cs.written == pl.totalBytes() {
		_ = st.SetReadDeadline(time.Now().Add(30 * time.Second))
		buf := make([]byte, 4096)
		for cs.echoGot < pl.Echo {
			n, err := st.Read(buf)
			if err != nil {
				break
			}
			if n < 1 || n > len(buf) {
				simrt.Fail("C19.read_contract", "client Read(len %d) returned %d, nil", len(buf), n)
				return
			}
			for i := 0; i < n; i++ {
				if buf[i] != naByte(cs.key^0x5555, cs.echoGot+i) {
					if os.Getenv("VSIM_DEBUG_BYTES") != "" {
						hi := i + 12
						if hi > n {
							hi = n
						}
						want := make([]byte, hi-i)
						for k := range want {
							want[k] = naByte(cs.key^0x5555, cs.echoGot+i+k)
						}
						fmt.Fprintf(os.Stderr, "DEBUG echo: n=%d i=%d got=%x want=%x attribution=%s\n", n, i, buf[i:hi], want, naAttribute(buf[i:hi]))
					}
					simrt.Fail("C19.wrong_bytes", "stream %d: echoed byte %d is wrong", cs.key, cs.echoGot+i)
					return
				}
			}
			cs.echoGot += n
		}
	}
	if pl.CloseBy == 0 || pl.CloseBy == 2 {
		cs.cliClose(st)
	} else {
		// wait for the server's close (bounded)
		_ = st.SetReadDeadline(time.Now().Add(60 * time.Second))
		buf := make([]byte, 64)
		for {
			_, err := st.Read(buf)
			if err != nil {
				break
			}
		}
		cs.cliClose(st)
	}
}

// naLostTags: wrong data on a connection whose own session is being torn down is finding F-TEARDOWN (the event loop
// recycles recvBuf under the reader); on a healthy session it is not.
func naLostTags(c net.Conn) map[string]string {
	sw, ok := c.(*streamWrapper)
	if !ok {
		return nil
	}
	for i := 0; i < 100; i++ {
		if sw.stream.session.shutdown == 1 {
			return map[string]string{"reader_session_lost": "yes"}
		}
		simrt.Sleep(time.Millisecond)
	}
	return nil
}

func (p *naStream) totalBytes() int {
	t := 0
	for _, s := range p.Writes {
		t += s
	}
	return t
}

func (w *naWorld) serveConn(c net.Conn) {
	// identify the stream by the key in its first 8 bytes
	hdr := make([]byte, 8)
	got := 0
	_ = c.SetReadDeadline(time.Now().Add(60 * time.Second))
	for got < 8 {
		n, err := c.Read(hdr[got:])
		if err != nil {
			_ = c.Close()
			return
		}
		if n < 1 || n > 8-got {
			simrt.Fail("C19.read_contract", "Read(len %d) returned %d, nil", 8-got, n)
			return
		}
		got += n
	}
	k := binary.BigEndian.Uint32(hdr[0:4])
	if k&0xffff0000 != 0xC0DE0000 {
		// the rest of a stream whose server end has already finished (it was told end-of-stream, or closed): data
		// for a closed stream id re-creates a stream, the protocol has no open message. Not a new client stream;
		// the application closes it. How the server end came to finish early is judged where it happened.
		for _, key := range w.order {
			g := w.conns[key]
			if !g.srvDone || g.received >= g.written {
				continue
			}
			same := true
			for j := range hdr {
				if hdr[j] != naByte(g.key, g.received+j) {
					same = false
					break
				}
			}
			if same {
				simrt.Count("probe.ghost_conn", 1)
				if !g.eofEarlyTagged {
					simrt.FailTagged("C19.wrong_bytes", w.switchTags(g, naLostTags(c)), "stream %d: the server was told end-of-stream after %d bytes although the client had written %d successfully; the rest arrived afterwards as a new connection", g.key, g.received, g.written)
				}
				_ = c.Close()
				return
			}
		}
		simrt.FailTagged("C19.wrong_bytes", w.switchTags(nil, naLostTags(c)), "an accepted connection does not start with the first bytes a client stream wrote (%x)", hdr)
		return
	}
	cs := w.conns[k&0xffff]
	if cs == nil {
		simrt.Fail("C19.wrong_bytes", "an accepted connection carries an unknown stream key %d", k&0xffff)
		return
	}
	cs.accepted++
	if cs.accepted > 1 {
		simrt.Fail("C19.accept_twice", "stream %d surfaced twice as a net.Conn", cs.key)
		return
	}
	total := int(binary.BigEndian.Uint32(hdr[4:8]))
	cs.received = 8
	pl := cs.plan
	defer func() { cs.srvDone = true }()
	ri := 0
	for cs.received < total {
		sz := pl.ReadSizes[ri%len(pl.ReadSizes)]
		ri++
		buf := make([]byte, sz)
		var dl time.Time
		past := ri == pl.PastRead
		if past {
			// as on a socket: a Read issued after its deadline does not wait (it fails, or returns what is there)
			_ = c.SetReadDeadline(time.Now().Add(-5 * time.Millisecond))
		} else if pl.DeadlineMs > 0 {
			dl = time.Now().Add(time.Duration(pl.DeadlineMs) * time.Millisecond)
			if cs.key%2 == 0 {
				_ = c.SetDeadline(dl) // nothing is written on this connection before everything has been read
			} else {
				_ = c.SetReadDeadline(dl)
			}
		} else {
			_ = c.SetReadDeadline(time.Now().Add(60 * time.Second))
		}
		t0 := simrt.Now()
		n, err := c.Read(buf)
		simrt.Event("S key%d Read(%d) -> %d, %v (received %d of %d)", cs.key, len(buf), n, err, cs.received, total)
		if past {
			if took := simrt.Now() - t0; took > time.Second {
				simrt.FailTagged("C19.deadline_ignored", naLostTags(c), "Read issued with an expired deadline blocked for %v (returned %d, %v)", took, n, err)
				return
			}
			if err == ErrTimeout {
				continue
			}
		}
		if err != nil {
			if err == ErrTimeout {
				if pl.DeadlineMs > 0 && time.Now().Before(dl) {
					simrt.Fail("C19.early_timeout", "Read timed out %v before its deadline", time.Until(dl))
					return
				}
				if pl.DeadlineMs > 0 {
					continue
				}
			}
			break
		}
		if n < 1 || n > len(buf) {
			simrt.Fail("C19.read_contract", "Read(len %d) returned %d, nil", len(buf), n)
			return
		}
		for i := 0; i < n; i++ {
			if buf[i] != naByte(cs.key, cs.received+i) {
				simrt.FailTagged("C19.wrong_bytes", w.switchTags(cs, naLostTags(c)), "stream %d: byte %d read by the server is not what the client wrote", cs.key, cs.received+i)
				return
			}
		}
		cs.received += n
	}
	if cs.received == total && pl.PastRead > 0 {
		// everything has arrived and the client now waits for this side: a Read whose deadline has already expired
		// must come back at once (timeout, or end-of-stream if the client has closed meanwhile), as on a socket
		_ = c.SetReadDeadline(time.Now().Add(-5 * time.Millisecond))
		t0 := simrt.Now()
		n, err := c.Read(make([]byte, 16))
		if took := simrt.Now() - t0; took > time.Second {
			simrt.FailTagged("C19.deadline_ignored", naLostTags(c), "Read issued with an expired deadline blocked for %v (returned %d, %v)", took, n, err)
			return
		}
	}
	if cs.received == total && pl.Echo > 0 {
		e := make([]byte, pl.Echo)
		for i := range e {
			e[i] = naByte(cs.key^0x5555, i)
		}
		wdl := time.Now().Add(60 * time.Second)
		_ = c.SetDeadline(time.Time{})
		_ = c.SetWriteDeadline(wdl)
		n, err := c.Write(e)
		if err == ErrTimeout && time.Now().Before(wdl) {
			simrt.FailTagged("C19.early_timeout", naLostTags(c), "Write timed out %v before its write deadline", time.Until(wdl))
			return
		}
		if err == nil && n != len(e) {
			simrt.Fail("C19.short_write", "server Write(%d bytes) returned %d, nil", len(e), n)
			return
		}
	}
	// a client that wrote everything successfully and closes only afterwards: the server, reading until the end,
	// receives all of it (its connection keeps the session alive even after the listener was closed)
	if cs.received < total && cs.written == total && !pl.sessionLeaves && pl.DeadlineMs == 0 && pl.CloseBy == 0 {
		tags := map[string]string{}
		simrt.FailTagged("C19.lost_bytes", tags, "stream %d: the client wrote %d bytes successfully and closed afterwards, but the server's reads ended after %d bytes", cs.key, total, cs.received)
		return
	}
	if pl.CloseBy == 1 || pl.CloseBy == 2 {
		cs.srvClosed = true
		if w.plan.DoubleClose {
			d2 := make(chan struct{})
			simrt.GoProc(w.ps, "closer2", func() { defer close(d2); _ = c.Close() })
			_ = c.Close()
			simrt.Recv(d2)
		} else {
			_ = c.Close()
		}
		// after Close every operation fails
		if _, err := c.Write([]byte{1}); err == nil {
			simrt.Fail("C19.use_after_close", "Write succeeded on a closed connection")
		}
		return
	}
	// wait for the client's close: Read must end with an error
	_ = c.SetReadDeadline(time.Now().Add(100 * time.Second))
	buf := make([]byte, 64)
	for {
		_, err := c.Read(buf)
		if err != nil {
			break
		}
	}
	cs.srvClosed = true
	_ = c.Close()
}
