//go:build verif

package shmipc

// Scenario shmqueue (C04): the real ring of 12-byte descriptors in one shared
// region; producers (1-3 threads of one process, sharing the process-local
// lock) and the single consumer (other process, own mapping), with every
// memory access a decision point. Oracle: linearizability against a bounded
// FIFO (porcupine) plus direct exactly-once / intact / order / bounds checks.

import (
	"encoding/json"
	"fmt"
	"time"

	"github.com/anishathalye/porcupine"
	"github.com/cloudwego/shmipc-go/simrt"
	"github.com/cloudwego/shmipc-go/simrt/ssys"
	"golang.org/x/sys/unix"
)

type queuePlan struct {
	Sim          SimKnobs `json:"sim"`
	Cap          uint32   `json:"cap"`
	Start        int64    `json:"start"`         // initial head == tail (a long-lived queue)
	CreatorProd  bool     `json:"creator_is_producer"`
	Producers    []int    `json:"producers"`     // number of puts per producer thread
	ConsumerOps  []string `json:"consumer_ops"`  // pop | size | empty | full
}

type shmqueueScenario struct{}

func init() { scenarios["shmqueue"] = shmqueueScenario{} }

func (shmqueueScenario) Decode(raw json.RawMessage) (interface{}, error) {
	var p queuePlan
	err := json.Unmarshal(raw, &p)
	return &p, err
}

func (shmqueueScenario) Knobs(plan interface{}) SimKnobs { return plan.(*queuePlan).Sim }

func (shmqueueScenario) Gen(r *Rng, tier string, opts map[string]string) interface{} {
	p := &queuePlan{Sim: genKnobs(r, true)}
	p.Cap = uint32(r.Pick(1, 1, 2, 2, 3, 4, 8))
	switch r.Intn(4) {
	case 0:
		p.Start = 0
	case 1:
		p.Start = int64(r.Intn(16))
	case 2:
		p.Start = (int64(1) << 32) - int64(r.Intn(6)) // crosses 2^32: a 32-bit truncation would show
	default:
		p.Start = (int64(1) << 40) + int64(r.Intn(1000))
	}
	p.CreatorProd = r.Chance(1, 2)
	np := 1 + r.Intn(3)
	total := 0
	for i := 0; i < np; i++ {
		n := 1 + r.Intn(6)
		p.Producers = append(p.Producers, n)
		total += n
	}
	nc := total + r.Intn(6)
	if nc > 24 {
		nc = 24
	}
	for i := 0; i < nc; i++ {
		switch r.Intn(8) {
		case 0:
			p.ConsumerOps = append(p.ConsumerOps, "size")
		case 1:
			p.ConsumerOps = append(p.ConsumerOps, "empty")
		default:
			p.ConsumerOps = append(p.ConsumerOps, "pop")
		}
	}
	return p
}

func (shmqueueScenario) Shrink(plan interface{}) []interface{} {
	p := plan.(*queuePlan)
	clone := func() *queuePlan {
		b, _ := json.Marshal(p)
		var q queuePlan
		_ = json.Unmarshal(b, &q)
		return &q
	}
	var out []interface{}
	if len(p.Producers) > 1 {
		for i := range p.Producers {
			q := clone()
			q.Producers = append(q.Producers[:i], q.Producers[i+1:]...)
			out = append(out, q)
		}
	}
	for i := range p.Producers {
		if p.Producers[i] > 1 {
			q := clone()
			q.Producers[i]--
			out = append(out, q)
		}
	}
	for i := range p.ConsumerOps {
		q := clone()
		q.ConsumerOps = append(q.ConsumerOps[:i], q.ConsumerOps[i+1:]...)
		out = append(out, q)
	}
	if p.Start != 0 {
		q := clone()
		q.Start = 0
		out = append(out, q)
	}
	if p.Sim.PointMean != 0 {
		q := clone()
		q.Sim.PointMean = 0
		out = append(out, q)
	}
	return out
}

type qIn struct {
	Put  bool
	Elem queueElement
}

type qOut struct {
	OK   bool // put accepted / pop returned an element
	Elem queueElement
}

type qWorld struct {
	plan    *queuePlan
	memA    []byte
	prodQ   *queue
	consQ   *queue
	clock   int64
	hist    []porcupine.Operation
	putSeq  map[queueElement]int64 // element -> return stamp of its successful put
	putInv  map[queueElement]int64
	popped  map[queueElement]bool
	lastPer map[uint32]uint32 // producer id -> last offset popped
	fulls   int64
	empties int64
	pops    int64
	puts    int64
}

func (w *qWorld) stamp() int64 { w.clock++; return w.clock }

func elemOf(prod, n int) queueElement {
	x := uint32(prod+1)*2654435761 ^ uint32(n+1)*40503
	return queueElement{seqID: uint32(prod + 1), offsetInShmBuf: uint32(n + 1), status: x | 0x80000000}
}

func (w *qWorld) boundsCheck() {
	// read the shared words directly: 0 <= tail-head <= cap at every step
	h, t := *w.prodQ.head, *w.prodQ.tail
	if t-h < 0 || t-h > int64(w.plan.Cap) {
		simrt.Fail("C04.bounds", "outstanding elements tail-head = %d-%d = %d outside [0,%d]", t, h, t-h, w.plan.Cap)
	}
}

func (shmqueueScenario) Run(s *simrt.Sim, plan interface{}, opts map[string]string) (*simrt.Proc, func()) {
	p := plan.(*queuePlan)
	ssys.NewKernel(s, ssys.KConfig{})
	pa := s.NewProc("A", 1001)
	pb := s.NewProc("B", 1002)
	w := &qWorld{plan: p, putSeq: map[queueElement]int64{}, putInv: map[queueElement]int64{}, popped: map[queueElement]bool{}, lastPer: map[uint32]uint32{}}
	s.AfterStep = func() {
		if w.prodQ != nil {
			w.boundsCheck()
		}
	}
	main := func() {
		memSize := countQueueMemSize(p.Cap)
		fd, err := ssys.MemfdCreate("vsim-queue", 0)
		if err != nil {
			simrt.Fail("harness.setup", "memfd: %v", err)
			return
		}
		_ = ssys.Ftruncate(fd, int64(memSize))
		w.memA, err = ssys.Mmap(fd, 0, memSize, unix.PROT_READ|unix.PROT_WRITE, unix.MAP_SHARED)
		if err != nil {
			simrt.Fail("harness.setup", "mmap: %v", err)
			return
		}
		qa := createQueueFromBytes(w.memA, p.Cap)
		*qa.head = p.Start
		*qa.tail = p.Start
		var qb *queue
		done := make(chan struct{})
		simrt.GoProc(pb, "mapper", func() {
			defer close(done)
			memB, err := ssys.Mmap(fd, 0, memSize, unix.PROT_READ|unix.PROT_WRITE, unix.MAP_SHARED)
			if err != nil {
				simrt.Fail("harness.setup", "mmap B: %v", err)
				return
			}
			qb = mappingQueueFromBytes(memB)
		})
		simrt.Recv(done)
		if simrt.Failed() {
			return
		}
		prodProc, consProc := pa, pb
		w.prodQ, w.consQ = qa, qb
		if !p.CreatorProd {
			prodProc, consProc = pb, pa
			w.prodQ, w.consQ = qb, qa
		}
		if w.consQ.cap != int64(p.Cap) || w.prodQ.cap != int64(p.Cap) {
			simrt.Fail("C04.layout", "mapped queue capacity %d/%d, created with %d", w.prodQ.cap, w.consQ.cap, p.Cap)
			return
		}
		nthreads := len(p.Producers) + 1
		fin := make(chan int, nthreads)
		for pi := range p.Producers {
			pi := pi
			simrt.GoProc(prodProc, fmt.Sprintf("P%d", pi), func() {
				w.producer(pi, p.Producers[pi])
				simrt.Send(fin, pi)
			})
		}
		simrt.GoProc(consProc, "C", func() {
			w.consumer()
			simrt.Send(fin, -1)
		})
		for i := 0; i < nthreads; i++ {
			simrt.Recv(fin)
		}
		if simrt.Failed() {
			return
		}
		// drain what is left (sequentially) so that exactly-once can be concluded
		for {
			inv := w.stamp()
			e, err := w.consQ.pop()
			ret := w.stamp()
			if err != nil {
				w.hist = append(w.hist, porcupine.Operation{ClientId: nthreads, Input: qIn{}, Call: inv, Output: qOut{}, Return: ret})
				break
			}
			if !w.checkPopped(e) {
				return
			}
			w.hist = append(w.hist, porcupine.Operation{ClientId: nthreads, Input: qIn{}, Call: inv, Output: qOut{OK: true, Elem: e}, Return: ret})
		}
		for e := range w.putSeq {
			if !w.popped[e] {
				simrt.Fail("C04.lost", "element %+v was enqueued successfully but never came out", e)
				return
			}
		}
		w.linearizable()
	}
	s.OnEnd = append(s.OnEnd, func() {
		s.Counters["queue.puts"] = w.puts
		s.Counters["queue.pops"] = w.pops
		s.Counters["probe.queue_full_seen"] = w.fulls
		s.Counters["probe.queue_empty_seen"] = w.empties
	})
	return pa, main
}

func (w *qWorld) producer(pi, n int) {
	for i := 0; i < n; i++ {
		if simrt.Failed() {
			return
		}
		simrt.Yield(simrt.KHarness, "put")
		e := elemOf(pi, i)
		for try := 0; try < 3; try++ {
			inv := w.stamp()
			err := w.prodQ.put(e)
			ret := w.stamp()
			if err == nil {
				w.puts++
				w.putInv[e] = inv
				w.putSeq[e] = ret
				w.hist = append(w.hist, porcupine.Operation{ClientId: pi, Input: qIn{Put: true, Elem: e}, Call: inv, Output: qOut{OK: true}, Return: ret})
				break
			}
			if err != ErrQueueFull {
				simrt.Fail("C04.put_error", "put returned unexpected error %v", err)
				return
			}
			w.fulls++
			w.hist = append(w.hist, porcupine.Operation{ClientId: pi, Input: qIn{Put: true, Elem: e}, Call: inv, Output: qOut{OK: false}, Return: ret})
			simrt.Yield(simrt.KHarness, "retry-put")
		}
	}
}

func (w *qWorld) checkPopped(e queueElement) bool {
	inv, known := w.putInv[e]
	_ = inv
	if !known {
		// maybe a put that is still in flight (invoked but not returned): accept elements any producer is currently offering
		if e.seqID >= 1 && int(e.seqID) <= len(w.plan.Producers) && e == elemOf(int(e.seqID-1), int(e.offsetInShmBuf-1)) && int(e.offsetInShmBuf) <= w.plan.Producers[e.seqID-1] {
			// well-formed element of the program; exactly-once and order are still checked below
		} else {
			simrt.Fail("C04.intact", "consumer received %+v which no producer ever enqueued (torn or invented element)", e)
			return false
		}
	}
	if w.popped[e] {
		simrt.Fail("C04.duplicate", "element %+v was delivered twice", e)
		return false
	}
	w.popped[e] = true
	if last := w.lastPer[e.seqID]; e.offsetInShmBuf <= last {
		simrt.Fail("C04.order", "producer %d: element #%d came out after its element #%d", e.seqID, e.offsetInShmBuf, last)
		return false
	}
	w.lastPer[e.seqID] = e.offsetInShmBuf
	return true
}

func (w *qWorld) consumer() {
	cid := len(w.plan.Producers)
	for _, op := range w.plan.ConsumerOps {
		if simrt.Failed() {
			return
		}
		simrt.Yield(simrt.KHarness, "cons-op")
		switch op {
		case "pop":
			inv := w.stamp()
			e, err := w.consQ.pop()
			ret := w.stamp()
			if err != nil {
				w.empties++
				w.hist = append(w.hist, porcupine.Operation{ClientId: cid, Input: qIn{}, Call: inv, Output: qOut{}, Return: ret})
				continue
			}
			w.pops++
			if !w.checkPopped(e) {
				return
			}
			w.hist = append(w.hist, porcupine.Operation{ClientId: cid, Input: qIn{}, Call: inv, Output: qOut{OK: true, Elem: e}, Return: ret})
		case "size":
			n := w.consQ.size()
			if n < 0 || n > int64(w.plan.Cap) {
				simrt.Fail("C04.bounds", "size() returned %d with capacity %d", n, w.plan.Cap)
				return
			}
		case "empty":
			_ = w.consQ.isEmpty()
		case "full":
			_ = w.consQ.isFull()
		}
	}
}

// linearizable checks the recorded history against a bounded FIFO.
func (w *qWorld) linearizable() {
	capN := int(w.plan.Cap)
	model := porcupine.Model{
		Init: func() interface{} { return []queueElement(nil) },
		Step: func(state, input, output interface{}) (bool, interface{}) {
			q := state.([]queueElement)
			in := input.(qIn)
			out := output.(qOut)
			if in.Put {
				if out.OK {
					if len(q) >= capN {
						return false, q
					}
					nq := append(append([]queueElement(nil), q...), in.Elem)
					return true, nq
				}
				return len(q) == capN, q
			}
			if out.OK {
				if len(q) == 0 || q[0] != out.Elem {
					return false, q
				}
				return true, append([]queueElement(nil), q[1:]...)
			}
			return len(q) == 0, q
		},
		Equal: func(a, b interface{}) bool {
			x, y := a.([]queueElement), b.([]queueElement)
			if len(x) != len(y) {
				return false
			}
			for i := range x {
				if x[i] != y[i] {
					return false
				}
			}
			return true
		},
		DescribeOperation: func(input, output interface{}) string {
			in, out := input.(qIn), output.(qOut)
			if in.Put {
				return fmt.Sprintf("put(%d/%d)->%v", in.Elem.seqID, in.Elem.offsetInShmBuf, out.OK)
			}
			if out.OK {
				return fmt.Sprintf("pop->%d/%d", out.Elem.seqID, out.Elem.offsetInShmBuf)
			}
			return "pop->empty"
		},
	}
	hist := w.hist
	if len(hist) > 60 {
		simrt.Count("porcupine.skipped_long", 1)
		return
	}
	// the check runs outside virtual time concerns: it is pure computation
	res := porcupine.CheckOperationsTimeout(model, hist, 20*time.Second)
	switch res {
	case porcupine.Ok:
		simrt.Count("porcupine.ok", 1)
	case porcupine.Unknown:
		simrt.Count("porcupine.unknown", 1)
	case porcupine.Illegal:
		desc := ""
		for _, o := range hist {
			desc += fmt.Sprintf(" [c%d %d-%d %s]", o.ClientId, o.Call, o.Return, model.DescribeOperation(o.Input, o.Output))
		}
		simrt.Fail("C04.linearizability", "history is not linearizable against a bounded FIFO of capacity %d:%s", capN, desc)
	}
}

func (shmqueueScenario) Post(plan interface{}, res *simrt.Result, rec *RunRecord) {
	p := plan.(*queuePlan)
	rec.Nontrivial = res.Switches > int64(4+2*len(p.Producers)) && res.Counters["queue.puts"] > 0 && res.Counters["queue.pops"] > 0
}
