package simrt

import (
	"fmt"
	"sort"
)

// PtrKey gives pointer-typed map keys a stable order (registered by the harness).
var PtrKey func(k interface{}) (int64, bool)

// SortedKeys returns the keys of m in a deterministic order (map iteration
// order is randomised by the Go runtime).
func SortedKeys[K comparable, V any](m map[K]V) []K {
	keys := make([]K, 0, len(m))
	for k := range m {
		keys = append(keys, k)
	}
	if len(keys) < 2 {
		return keys
	}
	ord := make([]int64, len(keys))
	strs := []string(nil)
	for i, k := range keys {
		switch v := interface{}(k).(type) {
		case int:
			ord[i] = int64(v)
		case int32:
			ord[i] = int64(v)
		case int64:
			ord[i] = v
		case uint32:
			ord[i] = int64(v)
		case uint64:
			ord[i] = int64(v)
		case uint16:
			ord[i] = int64(v)
		case uint8:
			ord[i] = int64(v)
		case uint:
			ord[i] = int64(v)
		case string:
			if strs == nil {
				strs = make([]string, len(keys))
			}
			strs[i] = v
		default:
			if PtrKey != nil {
				if o, ok := PtrKey(v); ok {
					ord[i] = o
					continue
				}
			}
			panic(fmt.Sprintf("simrt.SortedKeys: no stable order for key type %T", k))
		}
	}
	idx := make([]int, len(keys))
	for i := range idx {
		idx[i] = i
	}
	sort.SliceStable(idx, func(a, b int) bool {
		if strs != nil {
			return strs[idx[a]] < strs[idx[b]]
		}
		return ord[idx[a]] < ord[idx[b]]
	})
	out := make([]K, len(keys))
	for i, j := range idx {
		out[i] = keys[j]
	}
	return out
}
