package simrt

import (
	"reflect"
	"runtime"
)

// Send is `ch <- v` as a decision point.
func Send[T any](ch chan<- T, v T) {
	s := S
	if s == nil {
		ch <- v
		return
	}
	g := Yield(KChan, "send")
	if s.rootMode {
		ch <- v
		return
	}
	select {
	case ch <- v:
		return
	default:
	}
	g.what = "chan send"
	select {
	case ch <- v:
	case <-s.teardown:
		runtime.Goexit()
	}
	g.what = ""
	g.AfterBlock()
}

// Recv is `<-ch`.
func Recv[T any](ch <-chan T) T {
	v, _ := Recv2(ch)
	return v
}

// Recv2 is `v, ok := <-ch`.
func Recv2[T any](ch <-chan T) (T, bool) {
	s := S
	if s == nil {
		v, ok := <-ch
		return v, ok
	}
	g := Yield(KChan, "recv")
	if s.rootMode {
		v, ok := <-ch
		return v, ok
	}
	var v T
	var ok bool
	select {
	case v, ok = <-ch:
		return v, ok
	default:
	}
	g.what = "chan recv"
	select {
	case v, ok = <-ch:
	case <-s.teardown:
		runtime.Goexit()
	}
	g.what = ""
	g.AfterBlock()
	return v, ok
}

// Close is close(ch).
func Close[T any](ch chan<- T) {
	if S != nil {
		Yield(KChan, "close")
	}
	close(ch)
}

// Case is one communication clause of a rewritten select.
type Case struct {
	Dir reflect.SelectDir
	Ch  reflect.Value
	Val reflect.Value
}

func RecvCase[T any](ch <-chan T) Case {
	return Case{Dir: reflect.SelectRecv, Ch: reflect.ValueOf(ch)}
}

func SendCase(ch interface{}, v interface{}) Case {
	cv := reflect.ValueOf(ch)
	var vv reflect.Value
	if v == nil {
		vv = reflect.Zero(cv.Type().Elem())
	} else {
		vv = reflect.ValueOf(v)
		if vv.Type() != cv.Type().Elem() && vv.Type().ConvertibleTo(cv.Type().Elem()) && cv.Type().Elem().Kind() != reflect.Interface {
			vv = vv.Convert(cv.Type().Elem())
		}
	}
	return Case{Dir: reflect.SelectSend, Ch: cv, Val: vv}
}

// PreSend / PostSend / Exit bracket an inline send (used when the value's type
// differs from the channel's element type, where a generic helper cannot be inferred).
func PreSend() *G {
	if S == nil {
		return nil
	}
	return Yield(KChan, "send")
}

func PostSend(g *G) {
	if S == nil || g == nil || S.rootMode {
		return
	}
	g.AfterBlock()
}

func Exit() { runtime.Goexit() }

// RecvVal converts the value received by Select back to its static type.
func RecvVal[T any](ch <-chan T, v reflect.Value) T {
	var zero T
	if !v.IsValid() {
		return zero
	}
	x := v.Interface()
	if x == nil {
		return zero // a nil interface value was received
	}
	return x.(T)
}

var teardownCaseIdx = -2

// Select runs a select statement: a decision point, then the ready cases are
// polled one at a time in an order drawn from the tape (Go would pick uniformly
// among the ready ones with a runtime RNG); only if none is ready and there is
// no default does it block in one real select.
func Select(hasDefault bool, cases ...Case) (int, reflect.Value, bool) {
	s := S
	rc := make([]reflect.SelectCase, 0, len(cases)+1)
	for _, c := range cases {
		sc := reflect.SelectCase{Dir: c.Dir, Chan: c.Ch}
		if c.Dir == reflect.SelectSend {
			sc.Send = c.Val
		}
		rc = append(rc, sc)
	}
	if s == nil || s.rootMode {
		if hasDefault {
			rc = append(rc, reflect.SelectCase{Dir: reflect.SelectDefault})
		}
		i, v, ok := reflect.Select(rc)
		if hasDefault && i == len(cases) {
			return -1, reflect.Value{}, false
		}
		return i, v, ok
	}
	g := Yield(KSelect, "select")
	n := len(cases)
	// poll in a tape-chosen rotation + direction (cheap permutation family; every case can be first)
	start, step := 0, 1
	if n > 1 {
		r := s.choose(2*n, "selord")
		start = r % n
		if r >= n {
			step = n - 1 // i.e. -1 mod n
		}
	}
	two := make([]reflect.SelectCase, 2)
	two[1] = reflect.SelectCase{Dir: reflect.SelectDefault}
	for k, idx := 0, start; k < n; k, idx = k+1, (idx+step)%n {
		if !rc[idx].Chan.IsValid() || rc[idx].Chan.IsNil() {
			continue // nil channel never ready
		}
		two[0] = rc[idx]
		i, v, ok := reflect.Select(two)
		if i == 0 {
			return idx, v, ok
		}
	}
	if hasDefault {
		return -1, reflect.Value{}, false
	}
	rc = append(rc, reflect.SelectCase{Dir: reflect.SelectRecv, Chan: reflect.ValueOf(s.teardown)})
	g.what = "select"
	i, v, ok := reflect.Select(rc)
	if i == n {
		runtime.Goexit()
	}
	g.what = ""
	g.AfterBlock()
	return i, v, ok
}
