// Package simrt is the deterministic-simulation runtime that the instrumented
// copy of shmipc-go runs on. One token: exactly one registered goroutine
// executes package code at a time; the root goroutine (body of synctest.Test)
// regains control through synctest.Wait() whenever the token holder parks at a
// decision point, blocks in a real (bubble-owned) channel/timer operation or
// exits, and then draws the next goroutine to run from the tape.
package simrt

import (
	"fmt"
	"runtime"
	"runtime/debug"
	"sort"
	"strings"
	"sync"
	"testing/synctest"
	"time"
)

const (
	gRunning = iota
	gParked
	gDone
)

// Proc is a simulated OS process. Package-level state of the code under test
// is swapped when the token moves between goroutines of different processes.
type Proc struct {
	ID     int
	Name   string
	Pid    int
	Dead   bool // killed: its goroutines are never scheduled again
	Frozen bool
	Data   interface{}
	// ProtoGen > 0: the protocol generation this simulated process announces and accepts as its maximum (see
	// ProtoMax); ProtoGenSeen records that the library really consulted it.
	ProtoGen     int
	ProtoGenSeen bool
}

// G is a registered simulated goroutine.
type G struct {
	id      int
	name    string
	proc    *Proc
	gate    chan struct{}
	state   int
	site    string
	kind    SiteKind
	exiting bool
	daemon  bool
	prio    int
	starve  int
	stallTo time.Time
	// point counter for statement-level preemption
	pointGap int
	what     string // what it is blocked on (for reports)
	idle     bool
	tags     map[string]string
	// per-goroutine last-load table for the ABA detector
	seen map[uintptr]seenRec
}

type seenRec struct {
	ver uint64
	val uint64
}

func (g *G) ID() int       { return g.id }
func (g *G) Proc() *Proc   { return g.proc }
func (g *G) Name() string  { return g.name }
func (g *G) String() string { return fmt.Sprintf("g%d(%s@%s)", g.id, g.name, g.proc.Name) }

// SiteKind classifies decision points (used by targeted-delay strategy and coverage).
type SiteKind uint8

const (
	KOther SiteKind = iota
	KAtomicLoad
	KAtomicStore
	KAtomicAdd
	KCAS
	KLock
	KUnlock
	KChan
	KSelect
	KSyscall
	KGo
	KPoint
	KWake
	KStart
	KSleep
	KHarness
	kindCount
)

var kindNames = [...]string{"other", "load", "store", "add", "cas", "lock", "unlock", "chan", "select", "syscall", "go", "point", "wake", "start", "sleep", "harness"}

func (k SiteKind) String() string { return kindNames[k] }

// Strategy ids.
const (
	StratRandom = iota // random walk: preempt with probability SwitchPermille/1000 at each decision point
	StratPCT           // PCT: random priorities, Depth-1 priority change points
	StratRunToBlock    // never preempt voluntarily (baseline)
)

// Config is the per-run swarm configuration of the scheduler.
type Config struct {
	Seed           uint64
	Tape           []uint32 // replay tape; nil = search mode
	Strict         bool     // replay: tape exhaustion reads 0
	Strategy       int
	SwitchPermille int
	PointMean      int // mean number of Point() calls between statement-level decision points; 0 = never
	PCTDepth       int
	PCTSteps       int
	DelayKind      SiteKind // targeted delay: goroutines parking at this kind may be starved
	DelayMax       int
	MaxSteps       int64
	Horizon        time.Duration
	Trace          bool
	ChanCap        int // > 0: capacity given to the library's large hard-coded channels (see ChanCap)
}

// Failure is an oracle verdict recorded during a run.
type Failure struct {
	Rule   string `json:"rule"`
	Msg    string `json:"message"`
	Step   int64  `json:"step"`
	VTime  int64  `json:"vtime_ns"`
	G      string `json:"goroutine,omitempty"`
	Stack  string `json:"stack,omitempty"`
	Tags   map[string]string `json:"tags,omitempty"`
}

// Sim is one simulated execution.
type Sim struct {
	mu       sync.Mutex
	cfg      Config
	gs       []*G
	cur      *G
	curProc  *Proc
	procs    []*Proc
	wake     chan struct{}
	teardown chan struct{}
	tornDown bool
	rng      splitmix
	tape     []uint32
	tapePos  int
	steps    int64
	switches int64
	preempts int64
	digest   uint64
	t0       time.Time
	failures []Failure
	failed   bool
	finished bool
	mainDone bool
	budget   bool // step budget exhausted
	trace    []string
	sigHash  uint64 // schedule signature: hash of (proc,kind,site) at context switches
	kindHits [kindCount]int64
	pctChange map[int64]bool
	nextPrio int
	lowPrio  int

	// hooks
	SwapProc  func(from, to *Proc)
	AfterStep func() // runs on root, all goroutines quiescent
	StepHook  func(step int64) // runs on root before each pick (fault injection at an exact scheduling step)
	NormAddr  func(p uintptr) uintptr
	OnEnd     []func()

	// generic counters for evidence (fault kinds fired, probes)
	Counters map[string]int64
	// ABA detector state
	vers map[uintptr]uint64
	ABAs []ABAEvent
	abaWatch map[uintptr]string
	OnABA    func(addr uintptr) string // names the word an ABA event happened on ("" = not a watched word)

	leaked   int
	timers   timerHeap
	timerSeq uint64
	globalTags map[string]string
	rootMode bool // root goroutine is running oracle code: shims must not park
	Epoch    uint64
}

type ABAEvent struct {
	Addr uintptr // normalised address
	G    int
	Step int64
}

// S is the current run (nil outside a simulation: shims degrade to plain operations).
var S *Sim

var epochCounter uint64

type splitmix struct{ s uint64 }

func (r *splitmix) next() uint64 {
	r.s += 0x9e3779b97f4a7c15
	z := r.s
	z = (z ^ (z >> 30)) * 0xbf58476d1ce4e5b9
	z = (z ^ (z >> 27)) * 0x94d049bb133111eb
	return z ^ (z >> 31)
}

// NewSim creates a run. Must be called inside the synctest bubble.
func NewSim(cfg Config) *Sim {
	if cfg.MaxSteps == 0 {
		cfg.MaxSteps = 200000
	}
	if cfg.Horizon == 0 {
		cfg.Horizon = 10 * time.Minute
	}
	epochCounter++
	s := &Sim{
		cfg:      cfg,
		wake:     make(chan struct{}, 1),
		teardown: make(chan struct{}),
		rng:      splitmix{cfg.Seed},
		digest:   0xcbf29ce484222325,
		sigHash:  0xcbf29ce484222325,
		t0:       time.Now(),
		Counters: map[string]int64{},
		vers:     map[uintptr]uint64{},
		Epoch:    epochCounter,
	}
	if cfg.Tape != nil {
		s.tape = append([]uint32(nil), cfg.Tape...)
	}
	return s
}

func (s *Sim) replaying() bool { return s.cfg.Tape != nil }

// Choose returns a value in [0,n). Every nondeterministic decision of a run
// goes through here; 0 is always the "simplest" alternative.
func Choose(n int, label string) int {
	s := S
	if s == nil || n <= 1 {
		return 0
	}
	return s.choose(n, label)
}

func (s *Sim) choose(n int, label string) int {
	if n <= 1 {
		return 0
	}
	var v int
	if s.replaying() {
		if s.tapePos < len(s.tape) {
			v = int(s.tape[s.tapePos]) % n
		} else {
			v = 0
		}
		s.tapePos++
	} else {
		v = int(s.rng.next() % uint64(n))
		s.tape = append(s.tape, uint32(v))
		s.tapePos++
	}
	s.mix(uint64(v) + 0x1000*uint64(n))
	return v
}

// Chance returns true with probability num/den; false is the tape's 0.
func Chance(num, den int, label string) bool {
	if S == nil || num <= 0 {
		return false
	}
	v := Choose(den, label)
	return v != 0 && v <= num
}

func (s *Sim) mix(v uint64) {
	s.digest ^= v
	s.digest *= 0x100000001b3
}

func (s *Sim) mixSig(v uint64) {
	s.sigHash ^= v
	s.sigHash *= 0x100000001b3
}

// Event mixes an observable event into the run digest (and the trace when enabled).
func Event(format string, args ...interface{}) {
	s := S
	if s == nil {
		return
	}
	if s.cfg.Trace {
		msg := fmt.Sprintf(format, args...)
		s.mu.Lock()
		s.trace = append(s.trace, fmt.Sprintf("%6d %10s %s", s.steps, s.Now(), msg))
		s.mu.Unlock()
	}
}

// EventHash mixes deterministic integers into the digest.
func EventHash(vals ...uint64) {
	s := S
	if s == nil {
		return
	}
	for _, v := range vals {
		s.mix(v)
	}
}

// Now returns virtual time since the start of the run.
func (s *Sim) Now() time.Duration { return time.Since(s.t0) }

func Now() time.Duration {
	if S == nil {
		return 0
	}
	return S.Now()
}

func (s *Sim) NewProc(name string, pid int) *Proc {
	p := &Proc{ID: len(s.procs), Name: name, Pid: pid}
	s.procs = append(s.procs, p)
	return p
}

// Count bumps an evidence counter.
func Count(name string, d int64) {
	if S != nil {
		S.Counters[name] += d
	}
}

// Fail records an oracle violation; the run is torn down at the next decision.
func Fail(rule, format string, args ...interface{}) {
	s := S
	if s == nil {
		panic(fmt.Sprintf("simrt.Fail outside sim: %s: %s", rule, fmt.Sprintf(format, args...)))
	}
	s.fail(rule, fmt.Sprintf(format, args...), "", nil)
}

// FailTagged is Fail with discriminator tags (used by known-finding matching).
func FailTagged(rule string, tags map[string]string, format string, args ...interface{}) {
	S.fail(rule, fmt.Sprintf(format, args...), "", tags)
}

func (s *Sim) fail(rule, msg, stack string, tags map[string]string) {
	s.mu.Lock()
	defer s.mu.Unlock()
	if len(s.globalTags) > 0 {
		// run-wide discriminators (e.g. "a session was lost") accompany every verdict
		m := map[string]string{}
		for k, v := range s.globalTags {
			m[k] = v
		}
		for k, v := range tags {
			m[k] = v
		}
		tags = m
	}
	gname := ""
	if s.cur != nil {
		gname = s.cur.String()
	}
	if len(s.failures) < 8 {
		s.failures = append(s.failures, Failure{Rule: rule, Msg: msg, Step: s.steps, VTime: int64(s.Now()), G: gname, Stack: stack, Tags: tags})
	}
	s.failed = true
}

func (s *Sim) Failures() []Failure { return s.failures }
func Failed() bool {
	return S != nil && S.failed
}

// ---------------------------------------------------------------------------
// goroutines

func (s *Sim) newG(name string, proc *Proc) *G {
	g := &G{id: len(s.gs), name: name, proc: proc, gate: make(chan struct{}, 1), state: gRunning}
	if s.cfg.Strategy == StratPCT {
		// random distinct priority: higher runs first
		g.prio = 1000 + s.choose(1<<16, "prio")*64 + g.id%64
	}
	g.pointGap = s.drawGap()
	s.gs = append(s.gs, g)
	return g
}

func (s *Sim) drawGap() int {
	if s.cfg.PointMean <= 0 {
		return 1 << 30
	}
	return 1 + s.choose(2*s.cfg.PointMean, "gap")
}

// Cur returns the goroutine holding the token (valid only for the caller that
// holds it).
func Cur() *G {
	if S == nil {
		return nil
	}
	return S.cur
}

// CurProc returns the process of the running goroutine.
func CurProc() *Proc {
	if S == nil || S.cur == nil {
		return nil
	}
	return S.cur.proc
}

// Go starts f as a simulated goroutine of the current process.
func Go(f func()) {
	s := S
	if s == nil {
		go f()
		return
	}
	parent := Yield(KGo, "go")
	s.spawn(parent.proc, callerName(2), f, false)
}

// GoProc starts f as a goroutine of process p (harness use).
func GoProc(p *Proc, name string, f func()) *G {
	return S.spawn(p, name, f, false)
}

func callerName(skip int) string {
	_, file, line, ok := runtime.Caller(skip)
	if !ok {
		return "?"
	}
	if i := strings.LastIndexByte(file, '/'); i >= 0 {
		file = file[i+1:]
	}
	return fmt.Sprintf("%s:%d", file, line)
}

func (s *Sim) spawn(p *Proc, name string, f func(), timer bool) *G {
	s.mu.Lock()
	g := s.newG(name, p)
	s.mu.Unlock()
	go s.run(g, f)
	return g
}

// ClassifyFault lets the simulated kernel say what a faulting address belonged to.
var ClassifyFault func(addr uintptr) string

func (g *G) panicTagsFor(r interface{}) map[string]string {
	t := g.panicTags()
	if e, ok := r.(interface{ Addr() uintptr }); ok && ClassifyFault != nil {
		if c := ClassifyFault(e.Addr()); c != "" {
			t["fault"] = c
		}
	}
	return t
}

// GlobalTags are attached to every panic recorded from now on (e.g. "a session was lost").
func SetGlobalTag(k, v string) {
	if S == nil {
		return
	}
	if S.globalTags == nil {
		S.globalTags = map[string]string{}
	}
	S.globalTags[k] = v
}

func (g *G) panicTags() map[string]string {
	t := map[string]string{"proc": g.proc.Name}
	if S != nil {
		for k, v := range S.globalTags {
			t[k] = v
		}
	}
	for k, v := range g.tags {
		t[k] = v
	}
	return t
}

// Tag attaches a discriminator tag to goroutine g (may be called by another goroutine holding the token).
func (g *G) Tag(k, v string) {
	if g == nil {
		return
	}
	if g.tags == nil {
		g.tags = map[string]string{}
	}
	g.tags[k] = v
}

// SetTag attaches a discriminator tag to the calling goroutine; a panic in it carries the tags.
func SetTag(k, v string) {
	if g := Cur(); g != nil {
		if g.tags == nil {
			g.tags = map[string]string{}
		}
		if v == "" {
			delete(g.tags, k)
		} else {
			g.tags[k] = v
		}
	}
}

func (s *Sim) run(g *G, f func()) {
	debug.SetPanicOnFault(true)
	defer func() {
		if r := recover(); r != nil {
			if !s.tornDown {
				s.fail("panic", fmt.Sprintf("%v", r), string(debug.Stack()), g.panicTagsFor(r))
			}
		}
		s.mu.Lock()
		g.state = gDone
		s.mu.Unlock()
	}()
	s.park(g, KStart, "start")
	f()
}

// Yield is a decision point: the caller gives the token back and waits until
// the scheduler releases it again. Returns the caller's G.
func Yield(kind SiteKind, site string) *G {
	s := S
	if s == nil {
		return nil
	}
	g := s.cur
	if s.rootMode {
		return g
	}
	if g == nil {
		panic("simrt.Yield called by a goroutine that does not hold the token (site " + site + ")")
	}
	s.park(g, kind, site)
	return g
}

func (s *Sim) park(g *G, kind SiteKind, site string) {
	if s.tornDown {
		runtime.Goexit()
	}
	s.mu.Lock()
	g.state = gParked
	g.site = site
	g.kind = kind
	s.mu.Unlock()
	select {
	case s.wake <- struct{}{}:
	default:
	}
	select {
	case <-g.gate:
	case <-s.teardown:
		runtime.Goexit()
	}
	if g.exiting || s.tornDown {
		runtime.Goexit()
	}
}

// AfterBlock must be called by a goroutine right after it returned from a
// real blocking operation: it re-parks so that it only continues under the token.
func (g *G) AfterBlock() {
	S.park(g, KWake, "wake")
}

// BlockOn blocks the goroutine durably on ch (cancelled by teardown), then re-parks.
func (g *G) BlockOn(ch <-chan struct{}, what string) {
	s := S
	g.what = what
	select {
	case <-ch:
	case <-s.teardown:
		runtime.Goexit()
	}
	g.what = ""
	g.AfterBlock()
}

// Teardown returns the channel closed when the run is being torn down.
func Teardown() <-chan struct{} {
	if S == nil {
		return nil
	}
	return S.teardown
}

// MarkDaemonWait flags the goroutine as idling in an event-loop wait (not a stuck call).
func (g *G) MarkDaemonWait(on bool) {
	g.idle = on
	if on {
		g.what = "event-loop wait"
	} else {
		g.what = ""
	}
}

// Point is a statement-level potential decision point inserted by the instrumenter.
func Point(id int) {
	s := S
	if s == nil {
		return
	}
	g := s.cur
	if g == nil || s.rootMode || pointsOff {
		return
	}
	g.pointGap--
	if g.pointGap > 0 {
		return
	}
	g.pointGap = s.drawGap()
	s.park(g, KPoint, siteName(id))
}

var SiteTable []string

func siteName(id int) string {
	if id >= 0 && id < len(SiteTable) {
		return SiteTable[id]
	}
	return fmt.Sprintf("site%d", id)
}

// Gosched is runtime.Gosched: a pure decision point.
func Gosched() {
	if S == nil {
		runtime.Gosched()
		return
	}
	Yield(KOther, "gosched")
}

// Getpid returns the simulated pid of the current process.
func Getpid() int {
	if S == nil || S.cur == nil {
		return 4242
	}
	return S.cur.proc.Pid
}

// Starve asks the scheduler not to pick the calling goroutine for the next n decisions.
func (g *G) Starve(n int) { g.starve = n }

// ---------------------------------------------------------------------------
// process control (faults)

// Kill freezes every goroutine of p forever. Descriptor cleanup is the
// simulated kernel's business (ssys.KillProc calls this).
func (s *Sim) Kill(p *Proc) {
	p.Dead = true
}

// Stall keeps all goroutines of p off the CPU until virtual time now+d.
func (s *Sim) Stall(p *Proc, d time.Duration) {
	until := time.Now().Add(d)
	for _, g := range s.gs {
		if g.proc == p && g.state != gDone {
			g.stallTo = until
		}
	}
}

// StallG stalls one goroutine.
func (s *Sim) StallG(g *G, d time.Duration) { g.stallTo = time.Now().Add(d) }

// ---------------------------------------------------------------------------
// root loop

// Result summarises a run.
type Result struct {
	Steps    int64
	Switches int64
	Preempts int64
	VTime    time.Duration
	Digest   uint64
	Sig      uint64
	Tape     []uint32
	Failures []Failure
	Budget   bool
	Leaked   int
	Blocked  []string // goroutines still blocked at the end (for liveness oracles)
	Counters map[string]int64
	Kinds    map[string]int64
	Trace    []string
}

// Run executes main as the first goroutine of process p and drives the
// schedule until main returns (plus teardown). Must be called from the
// synctest bubble's root goroutine.
func (s *Sim) Run(p *Proc, main func()) *Result {
	S = s
	if s.cfg.Strategy == StratPCT {
		s.pctChange = map[int64]bool{}
		n := s.cfg.PCTSteps
		if n <= 0 {
			n = 2000
		}
		for i := 0; i < s.cfg.PCTDepth-1; i++ {
			s.pctChange[int64(1+s.choose(n, "pctpt"))] = true
		}
	}
	mg := s.spawn(p, "main", func() {
		main()
		s.mainDone = true
	}, false)
	_ = mg
	horizon := time.NewTimer(s.cfg.Horizon)
	defer horizon.Stop()
	endReason := ""
loop:
	for {
		synctest.Wait()
		if s.fireDue() > 0 {
			// fired timers woke goroutines: let them re-park
			synctest.Wait()
		}
		if s.AfterStep != nil && !s.failed {
			s.rootMode = true
			s.AfterStep()
			s.rootMode = false
		}
		if s.StepHook != nil && !s.failed {
			s.rootMode = true
			s.StepHook(s.steps)
			s.rootMode = false
			// the hook may have woken goroutines (closed descriptors, killed a process):
			// let them re-park before the candidate set is computed
			synctest.Wait()
		}
		if s.failed {
			endReason = "failed"
			break
		}
		if s.mainDone {
			endReason = "done"
			break
		}
		if s.steps >= s.cfg.MaxSteps {
			s.budget = true
			endReason = "budget"
			break
		}
		now := time.Now()
		cands := s.candidates(now)
		if len(cands) == 0 {
			// nothing runnable now: let virtual time advance to the next timer / stall end
			var stallCh <-chan time.Time
			var st *time.Timer
			d, ok := s.nextStallEnd(now)
			if td, tok := s.nextTimer(); tok && (!ok || td < d) {
				d, ok = td, true
			}
			if ok {
				st = time.NewTimer(d)
				stallCh = st.C
			}
			hz := false
			select {
			case <-s.wake:
			case <-stallCh:
			case <-horizon.C:
				hz = true
			}
			if st != nil {
				st.Stop()
			}
			if hz {
				endReason = "horizon"
				break loop
			}
			continue
		}
		g := s.pick(cands)
		s.steps++
		s.kindHits[g.kind]++
		if s.cur != g {
			s.switches++
			s.mixSig(uint64(g.proc.ID)<<8 | uint64(g.kind))
			s.mixSig(hashStr(g.site))
		}
		s.mix(uint64(g.id)<<16 | uint64(g.kind))
		if s.cfg.Trace {
			s.trace = append(s.trace, fmt.Sprintf("%6d %10s run %s at %s:%s", s.steps, s.Now(), g, g.kind, g.site))
		}
		if s.curProc != g.proc {
			if s.SwapProc != nil {
				s.SwapProc(s.curProc, g.proc)
			}
			s.curProc = g.proc
		}
		s.cur = g
		g.state = gRunning
		// drain a stale wake token so the next wait really waits
		select {
		case <-s.wake:
		default:
		}
		g.gate <- struct{}{}
	}
	_ = endReason
	res := &Result{
		Steps: s.steps, Switches: s.switches, Preempts: s.preempts, VTime: s.Now(), Digest: s.digest, Sig: s.sigHash,
		Failures: s.failures, Budget: s.budget, Counters: s.Counters, Kinds: map[string]int64{},
	}
	for k, v := range s.kindHits {
		if v > 0 {
			res.Kinds[SiteKind(k).String()] = v
		}
	}
	for _, g := range s.gs {
		if g.state != gDone && !g.daemon && !g.idle && !g.proc.Dead {
			res.Blocked = append(res.Blocked, fmt.Sprintf("%s state=%d site=%s what=%s", g, g.state, g.site, g.what))
		}
	}
	res.Tape = s.tape
	if s.replaying() && s.tapePos < len(s.tape) {
		res.Tape = s.tape[:s.tapePos]
	}
	// teardown: wake everybody with the exit order
	s.tornDown = true
	close(s.teardown)
	synctest.Wait()
	for _, g := range s.gs {
		if g.state != gDone {
			res.Leaked++
		}
	}
	s.rootMode = true
	for _, f := range s.OnEnd {
		f()
	}
	if s.SwapProc != nil && s.curProc != nil {
		s.SwapProc(s.curProc, nil)
	}
	res.Trace = s.trace
	S = nil
	return res
}

func hashStr(x string) uint64 {
	h := uint64(0xcbf29ce484222325)
	for i := 0; i < len(x); i++ {
		h ^= uint64(x[i])
		h *= 0x100000001b3
	}
	return h
}

func (s *Sim) candidates(now time.Time) []*G {
	var c []*G
	for _, g := range s.gs {
		if g.state != gParked || g.proc.Dead || g.proc.Frozen {
			continue
		}
		if !g.stallTo.IsZero() && now.Before(g.stallTo) {
			continue
		}
		c = append(c, g)
	}
	return c
}

func (s *Sim) nextStallEnd(now time.Time) (time.Duration, bool) {
	var best time.Duration
	ok := false
	for _, g := range s.gs {
		if g.state == gParked && !g.proc.Dead && !g.stallTo.IsZero() && now.Before(g.stallTo) {
			d := g.stallTo.Sub(now)
			if !ok || d < best {
				best, ok = d, true
			}
		}
	}
	return best, ok
}

func (s *Sim) pick(cands []*G) *G {
	// targeted delay: a goroutine that parked at the configured kind may be starved
	if s.cfg.DelayMax > 0 {
		for _, g := range cands {
			if g == s.cur && g.kind == s.cfg.DelayKind && g.starve == 0 {
				if v := s.choose(8, "delay?"); v == 1 {
					g.starve = 1 + s.choose(s.cfg.DelayMax, "delayn")
				}
			}
		}
	}
	// filter starving goroutines unless nobody else can run
	var avail []*G
	for _, g := range cands {
		if g.starve > 0 {
			continue
		}
		avail = append(avail, g)
	}
	if len(avail) == 0 {
		for _, g := range cands {
			g.starve = 0
		}
		avail = cands
	} else {
		for _, g := range cands {
			if g.starve > 0 {
				g.starve--
			}
		}
	}
	cands = avail
	curIdx := -1
	for i, g := range cands {
		if g == s.cur {
			curIdx = i
		}
	}
	switch s.cfg.Strategy {
	case StratPCT:
		if s.pctChange[s.steps] && curIdx >= 0 {
			s.lowPrio--
			cands[curIdx].prio = s.lowPrio
		}
		best := cands[0]
		for _, g := range cands[1:] {
			if g.prio > best.prio {
				best = g
			}
		}
		if curIdx >= 0 && best != s.cur {
			s.preempts++
		}
		return best
	case StratRunToBlock:
		if curIdx >= 0 {
			return cands[curIdx]
		}
		return cands[s.choose(len(cands), "pick")]
	default:
		if curIdx >= 0 {
			if len(cands) == 1 {
				return cands[0]
			}
			r := s.choose(1000, "sw")
			if r == 0 || r > s.cfg.SwitchPermille {
				return cands[curIdx]
			}
			s.preempts++
			others := make([]*G, 0, len(cands)-1)
			for i, g := range cands {
				if i != curIdx {
					others = append(others, g)
				}
			}
			return others[s.choose(len(others), "pick")]
		}
		return cands[s.choose(len(cands), "pick")]
	}
}

// SortGs is used by reports.
func SortGs(gs []*G) { sort.Slice(gs, func(i, j int) bool { return gs[i].id < gs[j].id }) }

// Daemon marks the calling goroutine as one that is expected to be still
// blocked when the run ends (e.g. an event loop).
func MarkDaemon() {
	if g := Cur(); g != nil {
		g.daemon = true
	}
}

// InRoot reports whether the root goroutine is running oracle code.
func InRoot() bool { return S != nil && S.rootMode }

// RunEpoch identifies the current run (0 outside a run).
func RunEpoch() uint64 {
	if S == nil {
		return 0
	}
	return S.Epoch
}

// BuggifyOn lists the cooperative fault points enabled for this run.
var buggifyOn map[string]int

// SetBuggify enables a buggify site with probability 1/den.
func SetBuggify(name string, den int) {
	if buggifyOn == nil {
		buggifyOn = map[string]int{}
	}
	buggifyOn[name] = den
}

func ClearBuggify() { buggifyOn = nil }

// Buggify flips a tape coin at an enabled cooperative fault point.
func Buggify(name string) bool {
	if S == nil || buggifyOn == nil {
		return false
	}
	den, ok := buggifyOn[name]
	if !ok {
		return false
	}
	if Choose(den, "bug:"+name) == 1 {
		S.Counters["buggify."+name]++
		return true
	}
	return false
}

// RunSeed is the seed of the current run.
func RunSeed() uint64 {
	if S == nil {
		return 0
	}
	return S.cfg.Seed
}

var pointsOff bool

// PointsOn enables/disables statement-level decision points globally (the
// harness switches them off while it builds the system under test).
func PointsOn(on bool) { pointsOff = !on }

// What reports what the goroutine is really blocked on ("" when runnable/parked).
func (g *G) What() string { return g.what }

// Done reports whether the goroutine has exited.
func (g *G) Done() bool { return g.state == gDone }

// ReallyBlocked reports whether g is blocked in a real channel/kernel wait (not merely parked).
func (g *G) ReallyBlocked() bool { return g.state == gRunning && g.what != "" && S != nil && S.cur != g }

// Steps returns the number of scheduling steps so far.
func Steps() int64 {
	if S == nil {
		return 0
	}
	return S.steps
}

// Procs returns the simulated processes.
func (s *Sim) Procs() []*Proc { return s.procs }

// FnTable is generated by the instrumenter (function names of the package under test).
var FnTable []string

// ChanCap is what the instrumenter puts in place of a hard-coded channel capacity >= 64.
func ChanCap(n int) int {
	if s := S; s != nil && s.cfg.ChanCap > 0 {
		return s.cfg.ChanCap
	}
	return n
}

// ProtoMax is what the instrumenter puts in place of uses of the constant maxSupportProtoVersion inside function
// bodies: a simulated process may belong to a later protocol generation than the code it runs (it announces a higher
// maximum; the handshake must still settle on the lower of the two).
func ProtoMax(n int) int {
	if p := CurProc(); p != nil && p.ProtoGen > 0 {
		p.ProtoGenSeen = true
		return p.ProtoGen
	}
	return n
}

// FnHit marks the library functions entered by any run of this process (reach measure reported in the evidence).
// Package code only runs under the scheduler's token, so plain stores suffice.
var FnHit []bool

// Fn records a function entry: always in FnHit, and in the trace of a traced replay.
func Fn(id int) {
	if FnHit == nil {
		FnHit = make([]bool, len(FnTable))
	}
	if id >= 0 && id < len(FnHit) {
		FnHit[id] = true
	}
	s := S
	if s == nil || !s.cfg.Trace {
		return
	}
	name := "?"
	if id >= 0 && id < len(FnTable) {
		name = FnTable[id]
	}
	g := s.cur
	gn := "?"
	if g != nil {
		gn = g.name
	}
	s.mu.Lock()
	s.trace = append(s.trace, fmt.Sprintf("%6d %10s   fn %s [%s]", s.steps, s.Now(), name, gn))
	s.mu.Unlock()
}
