// Package stime replaces package time in the instrumented build: clock reads
// and value types are the real ones (testing/synctest provides the fake
// clock), everything that creates a timer goes to the simulator's timers so
// that simultaneous expirations are delivered in a deterministic order.
package stime

import (
	"time"

	"github.com/cloudwego/shmipc-go/simrt"
)

type (
	Time       = time.Time
	Duration   = time.Duration
	Month      = time.Month
	Weekday    = time.Weekday
	Location   = time.Location
	ParseError = time.ParseError
	Timer      = simrt.Timer
	Ticker     = simrt.Ticker
)

const (
	Nanosecond  = time.Nanosecond
	Microsecond = time.Microsecond
	Millisecond = time.Millisecond
	Second      = time.Second
	Minute      = time.Minute
	Hour        = time.Hour

	Layout      = time.Layout
	ANSIC       = time.ANSIC
	UnixDate    = time.UnixDate
	RFC822      = time.RFC822
	RFC1123     = time.RFC1123
	RFC3339     = time.RFC3339
	RFC3339Nano = time.RFC3339Nano
	Kitchen     = time.Kitchen
	Stamp       = time.Stamp
	StampMilli  = time.StampMilli
	StampMicro  = time.StampMicro
	StampNano   = time.StampNano
	DateTime    = time.DateTime
	DateOnly    = time.DateOnly
	TimeOnly    = time.TimeOnly

	January  = time.January
	December = time.December
	Sunday   = time.Sunday
)

var (
	UTC   = time.UTC
	Local = time.Local
)

func Now() Time                         { return time.Now() }
func Since(t Time) Duration             { return time.Since(t) }
func Until(t Time) Duration             { return time.Until(t) }
func Unix(sec, nsec int64) Time         { return time.Unix(sec, nsec) }
func UnixMilli(ms int64) Time           { return time.UnixMilli(ms) }
func UnixMicro(us int64) Time           { return time.UnixMicro(us) }
func ParseDuration(s string) (Duration, error) { return time.ParseDuration(s) }
func Parse(layout, value string) (Time, error) { return time.Parse(layout, value) }
func Date(year int, month Month, day, hour, min, sec, nsec int, loc *Location) Time {
	return time.Date(year, month, day, hour, min, sec, nsec, loc)
}

func NewTimer(d Duration) *Timer            { return simrt.NewTimer(d) }
func NewTicker(d Duration) *Ticker          { return simrt.NewTicker(d) }
func AfterFunc(d Duration, f func()) *Timer { return simrt.AfterFunc(d, f) }
func After(d Duration) <-chan Time          { return simrt.After(d) }
func Tick(d Duration) <-chan Time           { return simrt.Tick(d) }
func Sleep(d Duration)                      { simrt.Sleep(d) }
