// Package simnet replaces net.Listen / net.Dial* in the instrumented build:
// connections and listeners live in the simulated kernel (ssys).
package simnet

import (
	"errors"
	"fmt"
	"io"
	"net"
	"os"
	"time"

	"github.com/cloudwego/shmipc-go/simrt"
	"github.com/cloudwego/shmipc-go/simrt/ssys"
	"golang.org/x/sys/unix"
)

// Addr is a net.Addr.
type Addr struct{ Net, Str string }

func (a Addr) Network() string { return a.Net }
func (a Addr) String() string  { return a.Str }

type timeoutErr struct{ msg string }

func (e *timeoutErr) Error() string   { return e.msg }
func (e *timeoutErr) Timeout() bool   { return true }
func (e *timeoutErr) Temporary() bool { return false }

type opErr struct {
	op  string
	err error
}

func (e *opErr) Error() string   { return e.op + ": " + e.err.Error() }
func (e *opErr) Unwrap() error   { return e.err }
func (e *opErr) Timeout() bool   { return false }
func (e *opErr) Temporary() bool { return false }

// Conn is a simulated stream connection (blocking mode, like a net.Conn).
type Conn struct {
	fd     int
	proc   *simrt.Proc
	sock   *ssys.Sock
	closed bool
	// keep the *os.File objects alive so that no finalizer ever runs on them
	files []*os.File
}

var keepAlive []*os.File

func newConn(fd int, s *ssys.Sock) *Conn { return &Conn{fd: fd, sock: s, proc: simrt.CurProc()} }

func (c *Conn) Fd() int          { return c.fd }
func (c *Conn) Sock() *ssys.Sock { return c.sock }

func (c *Conn) Read(b []byte) (int, error) {
	if c.closed {
		return 0, net.ErrClosed
	}
	n, err := ssys.Read(c.fd, b)
	if err != nil {
		return 0, &opErr{"read", err}
	}
	if n == 0 && len(b) > 0 {
		return 0, io.EOF
	}
	return n, nil
}

func (c *Conn) Write(b []byte) (int, error) {
	if c.closed {
		return 0, net.ErrClosed
	}
	n, err := ssys.Write(c.fd, b)
	if err != nil {
		return n, &opErr{"write", err}
	}
	return n, nil
}

func (c *Conn) Close() error {
	if c.closed {
		return net.ErrClosed
	}
	c.closed = true
	return ssys.Close(c.fd)
}

func (c *Conn) LocalAddr() net.Addr  { return Addr{c.sock.Flavor, c.sock.Laddr} }
func (c *Conn) RemoteAddr() net.Addr { return Addr{c.sock.Flavor, c.sock.Raddr} }

func (c *Conn) SetDeadline(t time.Time) error      { return nil }
func (c *Conn) SetReadDeadline(t time.Time) error  { return nil }
func (c *Conn) SetWriteDeadline(t time.Time) error { return nil }

// File returns a dup of the connection's descriptor, as (*net.UnixConn).File does.
func (c *Conn) File() (*os.File, error) {
	if c.closed {
		return nil, net.ErrClosed
	}
	simrt.Yield(simrt.KSyscall, "dup")
	nfd, err := ssys.K.Dup(c.fd, simrt.CurProc())
	if err != nil {
		return nil, err
	}
	f := os.NewFile(uintptr(nfd), fmt.Sprintf("simsock:%d", nfd))
	keepAlive = append(keepAlive, f)
	return f, nil
}

// ResetKeepAlive drops the files kept from earlier runs (their descriptors are fake).
func ResetKeepAlive() { keepAlive = nil }

// Listener is a simulated listening socket.
type Listener struct {
	fd     int
	ln     *ssys.ListenerObj
	closed bool
}

func (l *Listener) Fd() int { return l.fd }

func (l *Listener) Accept() (net.Conn, error) {
	fd, s, err := ssys.K.Accept(l.fd)
	if err != nil {
		return nil, &opErr{"accept", fmt.Errorf("use of closed network connection")}
	}
	return newConn(fd, s), nil
}

func (l *Listener) Close() error {
	if l.closed {
		return &opErr{"close", fmt.Errorf("use of closed network connection")}
	}
	l.closed = true
	return ssys.Close(l.fd)
}

func (l *Listener) Addr() net.Addr { return Addr{l.ln.Network, l.ln.Addr} }

func Listen(network, address string) (net.Listener, error) {
	if ssys.K == nil {
		return nil, errors.New("simnet: no simulated kernel")
	}
	switch network {
	case "unix", "tcp", "tcp4", "tcp6":
	default:
		return nil, fmt.Errorf("listen %s: unknown network", network)
	}
	ln, fd, err := ssys.K.Listen(simrt.CurProc(), network, address)
	if err != nil {
		return nil, &opErr{"listen " + network + " " + address, err}
	}
	return &Listener{fd: fd, ln: ln}, nil
}

func Dial(network, address string) (net.Conn, error) {
	return DialTimeout(network, address, 0)
}

func DialTimeout(network, address string, timeout time.Duration) (net.Conn, error) {
	if ssys.K == nil {
		return nil, errors.New("simnet: no simulated kernel")
	}
	fd, s, err := ssys.K.Connect(simrt.CurProc(), network, address)
	if err != nil {
		if err == unix.ENOENT {
			return nil, &opErr{"dial " + network + " " + address, fmt.Errorf("connect: no such file or directory")}
		}
		return nil, &opErr{"dial " + network + " " + address, fmt.Errorf("connect: connection refused")}
	}
	return newConn(fd, s), nil
}

// WrapFd makes a Conn of an existing simulated socket descriptor (socketpair-style setups).
func WrapFd(fd int) *Conn { return newConn(fd, ssys.K.SockOf(fd)) }
