// Package ssync replaces package sync in the instrumented build: every
// primitive is a decision point and blocks through the simulator, with the
// same semantics as the real primitive (any hand-off order, RWMutex writer
// preference, Once runs exactly once, deterministic LIFO Pool).
package ssync

import (
	"sync"

	"github.com/cloudwego/shmipc-go/simrt"
)

type Locker = sync.Locker

type waiter struct {
	ch chan struct{}
}

type waitq struct {
	ws []*waiter
}

func (q *waitq) wait(g *simrt.G, what string) {
	w := &waiter{ch: make(chan struct{})}
	q.ws = append(q.ws, w)
	g.BlockOn(w.ch, what)
}

func (q *waitq) wakeAll() {
	for _, w := range q.ws {
		close(w.ch)
	}
	q.ws = nil
}

// Mutex: Unlock wakes every waiter; the scheduler decides who gets the lock
// (Go allows barging, so every order is a legal behaviour of sync.Mutex).
type Mutex struct {
	locked bool
	q      waitq
}

func (m *Mutex) Lock() {
	g := simrt.Yield(simrt.KLock, "lock")
	if g == nil || simrt.InRoot() {
		if m.locked && simrt.S == nil {
			panic("ssync.Mutex: would block outside simulation")
		}
		m.locked = true
		return
	}
	for m.locked {
		m.q.wait(g, "mutex")
	}
	m.locked = true
}

func (m *Mutex) TryLock() bool {
	simrt.Yield(simrt.KLock, "trylock")
	if m.locked {
		return false
	}
	m.locked = true
	return true
}

func (m *Mutex) Unlock() {
	if !m.locked {
		panic("sync: unlock of unlocked mutex")
	}
	m.locked = false
	m.q.wakeAll()
}

// RWMutex with writer preference (a waiting writer blocks new readers), as sync.RWMutex.
type RWMutex struct {
	writer   bool
	readers  int
	wwaiting int
	q        waitq
}

func (m *RWMutex) Lock() {
	g := simrt.Yield(simrt.KLock, "wlock")
	if g == nil || simrt.InRoot() {
		m.writer = true
		return
	}
	m.wwaiting++
	for m.writer || m.readers > 0 {
		m.q.wait(g, "rwmutex-w")
	}
	m.wwaiting--
	m.writer = true
}

func (m *RWMutex) Unlock() {
	if !m.writer {
		panic("sync: Unlock of unlocked RWMutex")
	}
	m.writer = false
	m.q.wakeAll()
}

func (m *RWMutex) RLock() {
	g := simrt.Yield(simrt.KLock, "rlock")
	if g == nil || simrt.InRoot() {
		m.readers++
		return
	}
	for m.writer || m.wwaiting > 0 {
		m.q.wait(g, "rwmutex-r")
	}
	m.readers++
}

func (m *RWMutex) RUnlock() {
	if m.readers <= 0 {
		panic("sync: RUnlock of unlocked RWMutex")
	}
	m.readers--
	if m.readers == 0 {
		m.q.wakeAll()
	}
}

func (m *RWMutex) RLocker() Locker { return (*rlocker)(m) }

type rlocker RWMutex

func (r *rlocker) Lock()   { (*RWMutex)(r).RLock() }
func (r *rlocker) Unlock() { (*RWMutex)(r).RUnlock() }

// Once.
type Once struct {
	done    bool
	running bool
	q       waitq
}

func (o *Once) Do(f func()) {
	g := simrt.Yield(simrt.KLock, "once")
	if o.done {
		return
	}
	if g == nil || simrt.InRoot() {
		if !o.running {
			o.running = true
			f()
			o.done = true
		}
		return
	}
	for o.running && !o.done {
		o.q.wait(g, "once")
	}
	if o.done {
		return
	}
	o.running = true
	defer func() {
		o.done = true
		o.q.wakeAll()
	}()
	f()
}

// WaitGroup.
type WaitGroup struct {
	n int
	q waitq
}

func (wg *WaitGroup) Add(d int) {
	simrt.Yield(simrt.KLock, "wg.add")
	wg.n += d
	if wg.n < 0 {
		panic("sync: negative WaitGroup counter")
	}
	if wg.n == 0 {
		wg.q.wakeAll()
	}
}

func (wg *WaitGroup) Done() { wg.Add(-1) }

func (wg *WaitGroup) Wait() {
	g := simrt.Yield(simrt.KLock, "wg.wait")
	if g == nil || simrt.InRoot() {
		return
	}
	for wg.n > 0 {
		wg.q.wait(g, "waitgroup")
	}
}

// Pool: deterministic LIFO; emptied at every new run (objects such as timers
// must never cross synctest bubbles).
type Pool struct {
	New   func() interface{}
	items map[*simrt.Proc][]interface{} // a package-level pool exists once per process: one free list per simulated process
	epoch uint64
	// real lock, never held across a park: at the end of a run the goroutines are torn down in parallel (Goexit) and
	// their deferred calls put objects back outside the token discipline
	mu sync.Mutex
}

func (p *Pool) check() {
	e := simrt.RunEpoch()
	if p.epoch != e || p.items == nil {
		p.items = map[*simrt.Proc][]interface{}{}
		p.epoch = e
	}
}

func (p *Pool) Get() interface{} {
	pr := simrt.CurProc()
	miss := false
	p.mu.Lock()
	p.check()
	n := len(p.items[pr])
	p.mu.Unlock()
	if n > 0 {
		// buggify: a real sync.Pool may lose any object at any time (drawn outside the lock: nothing that can park,
		// and New below is instrumented library code, runs while the lock is held)
		miss = simrt.Buggify("pool-miss")
		p.mu.Lock()
		var x interface{}
		if n = len(p.items[pr]); n > 0 {
			x = p.items[pr][n-1]
			p.items[pr] = p.items[pr][:n-1]
		}
		p.mu.Unlock()
		if x != nil && !miss {
			return x
		}
	}
	if p.New != nil {
		return p.New()
	}
	return nil
}

func (p *Pool) Put(x interface{}) {
	if x == nil {
		return
	}
	pr := simrt.CurProc()
	p.mu.Lock()
	defer p.mu.Unlock()
	p.check()
	p.items[pr] = append(p.items[pr], x)
}
