// Package ssys replaces golang.org/x/sys/unix in the instrumented build. Real:
// memfd_create, ftruncate, fstat, mmap (with a ledger, munmap quarantined until
// the run ends), dup of real descriptors. Simulated: stream sockets
// (unix/tcp flavour), SCM_RIGHTS, epoll (edge triggered, Linux semantics),
// listeners/connect. Every call is a decision point of the scheduler.
package ssys

import (
	"fmt"
	"os"
	"sort"
	"time"
	"unsafe"

	"github.com/cloudwego/shmipc-go/simrt"
	"golang.org/x/sys/unix"
)

const FakeFdBase = 1 << 20

// KConfig is the per-run configuration of the simulated kernel.
type KConfig struct {
	SockBuf     int  // receive-queue capacity of new sockets (bytes)
	FragReads   bool // reads return a tape-chosen prefix of what is available
	FragWrites  bool // non-blocking writes accept a tape-chosen prefix of the room
	SpuriousAgain int // 1/N chance that a non-blocking read/write returns EAGAIN although it could progress (0=off); an edge is re-armed
}

type waiter struct{ ch chan struct{} }

type waitq []*waiter

func (q *waitq) add() *waiter {
	w := &waiter{ch: make(chan struct{})}
	*q = append(*q, w)
	return w
}

func (q *waitq) wakeAll() {
	for _, w := range *q {
		close(w.ch)
	}
	*q = nil
}

type oobItem struct {
	pos int64
	fds []int // real descriptors dup'ed by the kernel while in flight
}

// Sock is one end of a simulated stream socket.
type Sock struct {
	ID        int
	peer      *Sock
	rbuf      []byte
	rpos      int64 // absolute offset of rbuf[0] in the inbound stream
	wtotal    int64 // bytes ever appended to rbuf
	rcap      int
	oob       []oobItem
	closed    bool // this end fully closed
	peerGone  bool // peer end closed (or connection severed inbound)
	shutWr    bool // our write side shut (sever outbound)
	reset     bool
	rwait     waitq
	wwait     waitq // writers blocked on room in peer's rbuf wait on the *peer's* wwait? no: on ours (space in peer.rbuf) — see write()
	regs      []*epreg
	Flavor    string
	Laddr     string
	Raddr     string
	wasFull   bool // a writer saw no room: raise EPOLLOUT edge on the writer side when room appears
	Tap       func(dir int, b []byte) // harness tap: dir 0 = bytes accepted for this end's inbound stream
	BytesIn   int64
}

type epreg struct {
	ep      *Epoll
	fd      int
	sock    *Sock
	events  uint32
	data    [8]byte
	onReady bool
}

// Epoll instance.
type Epoll struct {
	regs  map[int]*epreg
	ready []*epreg
	wq    waitq
}

// ListenerObj is a simulated listening socket.
type ListenerObj struct {
	ID      int
	Network string
	Addr    string
	backlog []*Sock
	closed  bool
	wq      waitq
	Owner   *simrt.Proc
}

type file struct {
	refs     int
	sock     *Sock
	ep       *Epoll
	ln       *ListenerObj
	nonblock bool
}

type fdesc struct {
	fd   int
	proc *simrt.Proc
	f    *file
}

type Mapping struct {
	Addr   uintptr
	Len    int
	Mem    []byte
	Proc   *simrt.Proc
	Key    uint64 // identity of the backing object (dev,ino)
	Off    int64
	Live   bool
}

type realFd struct {
	proc *simrt.Proc
	what string
}

// Kernel is the per-run simulated kernel state.
type Kernel struct {
	Cfg       KConfig
	sim       *simrt.Sim
	fds       map[int]*fdesc
	nextFd    int
	nextID    int
	Mappings  []*Mapping
	realFds   map[int]*realFd
	listeners map[string]*ListenerObj // "network|addr" -> live listener
	keyIDs    map[[2]uint64]uint64
	ShmFiles  map[string]bool
	Stats     map[string]int64
	// SockOpHook is called at the start of every socket read/write/sendmsg/recvmsg (harness fault injection).
	SockOpHook func(p *simrt.Proc, op string)
	// MmapFault, if set, is asked before every mmap of a simulated process; true makes the call fail with ENOMEM.
	MmapFault func(p *simrt.Proc) bool
}

// K is the kernel of the current run.
var K *Kernel

// NewKernel installs a fresh kernel for the run.
func NewKernel(s *simrt.Sim, cfg KConfig) *Kernel {
	if cfg.SockBuf <= 0 {
		cfg.SockBuf = 64 * 1024
	}
	k := &Kernel{Cfg: cfg, sim: s, fds: map[int]*fdesc{}, nextFd: FakeFdBase, realFds: map[int]*realFd{},
		listeners: map[string]*ListenerObj{}, keyIDs: map[[2]uint64]uint64{}, Stats: map[string]int64{}}
	K = k
	s.NormAddr = k.normAddr
	simrt.ClassifyFault = func(a uintptr) string {
		for _, m := range k.Mappings {
			if a >= m.Addr && a < m.Addr+uintptr(m.Len) {
				if m.Live {
					return "live_mapping"
				}
				return "use_after_unmap"
			}
		}
		return ""
	}
	s.OnEnd = append(s.OnEnd, k.cleanup)
	return k
}

func (k *Kernel) normAddr(a uintptr) uintptr {
	for _, m := range k.Mappings {
		if a >= m.Addr && a < m.Addr+uintptr(m.Len) {
			return uintptr(m.Key<<40) | uintptr(int64(a-m.Addr)+m.Off)
		}
	}
	return a
}

func (k *Kernel) cleanup() {
	for name, v := range k.Stats {
		k.sim.Counters[name] += v
	}
	for _, m := range k.Mappings {
		if m.Mem != nil {
			_ = unix.Mprotect(m.Mem, unix.PROT_READ|unix.PROT_WRITE)
			_ = unix.Munmap(m.Mem)
			m.Mem = nil
		}
	}
	fds := make([]int, 0, len(k.realFds))
	for fd := range k.realFds {
		fds = append(fds, fd)
	}
	for _, fd := range fds {
		_ = unix.Close(fd)
	}
	k.realFds = map[int]*realFd{}
	for _, d := range k.fds {
		if d.f.sock != nil {
			for _, it := range d.f.sock.oob {
				for _, fd := range it.fds {
					_ = unix.Close(fd)
				}
			}
			d.f.sock.oob = nil
		}
	}
	K = nil
}

func curProc() *simrt.Proc { return simrt.CurProc() }

func (k *Kernel) count(name string) { k.Stats[name]++ }

func (k *Kernel) newFd(f *file, p *simrt.Proc) int {
	fd := k.nextFd
	k.nextFd++
	f.refs++
	k.fds[fd] = &fdesc{fd: fd, proc: p, f: f}
	return fd
}

func (k *Kernel) lookup(fd int) *fdesc {
	d := k.fds[fd]
	if d == nil {
		return nil
	}
	return d
}

// ---------------------------------------------------------------------------
// sockets

// SocketPair creates a connected pair; descriptors belong to pa and pb.
func (k *Kernel) SocketPair(pa, pb *simrt.Proc, flavor, addrA, addrB string) (int, int) {
	a := &Sock{ID: k.nextID, rcap: k.Cfg.SockBuf, Flavor: flavor, Laddr: addrA, Raddr: addrB}
	b := &Sock{ID: k.nextID + 1, rcap: k.Cfg.SockBuf, Flavor: flavor, Laddr: addrB, Raddr: addrA}
	k.nextID += 2
	a.peer, b.peer = b, a
	return k.newFd(&file{sock: a}, pa), k.newFd(&file{sock: b}, pb)
}

func (k *Kernel) newSockPair(flavor, addrA, addrB string) (*Sock, *Sock) {
	a := &Sock{ID: k.nextID, rcap: k.Cfg.SockBuf, Flavor: flavor, Laddr: addrA, Raddr: addrB}
	b := &Sock{ID: k.nextID + 1, rcap: k.Cfg.SockBuf, Flavor: flavor, Laddr: addrB, Raddr: addrA}
	k.nextID += 2
	a.peer, b.peer = b, a
	return a, b
}

// SockOf returns the socket behind a descriptor (harness use).
func (k *Kernel) SockOf(fd int) *Sock {
	if d := k.fds[fd]; d != nil {
		return d.f.sock
	}
	return nil
}

func (s *Sock) Peer() *Sock { return s.peer }

// Pending returns the number of unread inbound bytes.
func (s *Sock) Pending() int { return len(s.rbuf) }

func (s *Sock) edge() {
	for _, r := range s.regs {
		if !r.onReady {
			r.onReady = true
			r.ep.ready = append(r.ep.ready, r)
		}
		r.ep.wq.wakeAll()
	}
}

func (s *Sock) mask() uint32 {
	var m uint32
	if len(s.rbuf) > 0 || s.peerGone || s.reset {
		m |= unix.EPOLLIN
	}
	if s.peerGone {
		m |= unix.EPOLLRDHUP | unix.EPOLLHUP
	}
	if s.reset {
		m |= unix.EPOLLERR | unix.EPOLLHUP
	}
	if !s.peerGone && !s.shutWr && s.peer != nil && len(s.peer.rbuf) < s.peer.rcap {
		m |= unix.EPOLLOUT
	}
	return m
}

func (k *Kernel) sockRead(g *simrt.G, d *fdesc, p []byte, wantOob bool) (n int, fds []int, err error) {
	s := d.f.sock
	if k.SockOpHook != nil {
		k.SockOpHook(d.proc, "read")
	}
	for {
		if k.fds[d.fd] != d || s.closed {
			return 0, nil, unix.EBADF
		}
		if s.reset {
			return 0, nil, unix.ECONNRESET
		}
		if len(s.rbuf) > 0 {
			if d.f.nonblock && k.Cfg.SpuriousAgain > 0 && simrt.Choose(k.Cfg.SpuriousAgain, "spurious-eagain-r") == 1 {
				// legal: level is still readable, so re-arm the edge as Linux would on the next arrival
				k.count("fault.spurious_eagain_read")
				s.edge()
				return 0, nil, unix.EAGAIN
			}
			avail := len(s.rbuf)
			// never cross an ancillary-data boundary
			if len(s.oob) > 0 {
				first := s.oob[0].pos
				if first > s.rpos {
					if int64(avail) > first-s.rpos {
						avail = int(first - s.rpos)
					}
				} else {
					avail = 1
				}
			}
			n = len(p)
			if n > avail {
				n = avail
			}
			if k.Cfg.FragReads && n > 1 {
				c := simrt.Choose(4, "fragr")
				switch c {
				case 1:
					n = 1
					k.count("fault.frag_read")
				case 2:
					n = 1 + simrt.Choose(n, "fragr-n")
					k.count("fault.frag_read")
				}
			}
			copy(p, s.rbuf[:n])
			if len(s.oob) > 0 && s.oob[0].pos == s.rpos {
				it := s.oob[0]
				s.oob = s.oob[1:]
				if wantOob {
					fds = it.fds
				} else {
					for _, fd := range it.fds {
						k.closeReal(fd)
					}
				}
			}
			s.rbuf = s.rbuf[n:]
			s.rpos += int64(n)
			if len(s.rbuf) == 0 {
				s.rbuf = nil
			}
			if s.peer != nil {
				s.peer.wwait.wakeAll()
				if s.peer.wasFull {
					s.peer.wasFull = false
					s.peer.edge()
				}
			}
			simrt.EventHash(uint64(d.fd), uint64(n))
			return n, fds, nil
		}
		if s.peerGone {
			return 0, nil, nil // EOF
		}
		if d.f.nonblock {
			return 0, nil, unix.EAGAIN
		}
		w := s.rwait.add()
		g.BlockOn(w.ch, fmt.Sprintf("read fd %d", d.fd))
	}
}

func (k *Kernel) sockWrite(g *simrt.G, d *fdesc, p []byte, oobFds []int) (n int, err error) {
	s := d.f.sock
	if k.SockOpHook != nil {
		k.SockOpHook(d.proc, "write")
	}
	total := 0
	for {
		if k.fds[d.fd] != d || s.closed {
			return total, unix.EBADF
		}
		if s.reset {
			return total, unix.ECONNRESET
		}
		if s.peerGone || s.shutWr || s.peer == nil {
			return total, unix.EPIPE
		}
		pr := s.peer
		room := pr.rcap - len(pr.rbuf)
		if room > 0 {
			if d.f.nonblock && k.Cfg.SpuriousAgain > 0 && total == 0 && simrt.Choose(k.Cfg.SpuriousAgain, "spurious-eagain-w") == 1 {
				k.count("fault.spurious_eagain_write")
				s.edge()
				return 0, unix.EAGAIN
			}
			n := len(p) - total
			if n > room {
				n = room
				k.count("fault.partial_write")
			}
			if d.f.nonblock && k.Cfg.FragWrites && n > 1 {
				switch simrt.Choose(4, "fragw") {
				case 1:
					n = 1
					k.count("fault.frag_write")
				case 2:
					n = 1 + simrt.Choose(n, "fragw-n")
					k.count("fault.frag_write")
				}
			}
			if oobFds != nil && total == 0 {
				pr.oob = append(pr.oob, oobItem{pos: pr.rpos + int64(len(pr.rbuf)), fds: oobFds})
			}
			chunk := p[total : total+n]
			if pr.Tap != nil {
				pr.Tap(0, chunk)
			}
			pr.rbuf = append(pr.rbuf, chunk...)
			pr.wtotal += int64(n)
			pr.BytesIn += int64(n)
			total += n
			pr.rwait.wakeAll()
			pr.edge()
			simrt.EventHash(uint64(d.fd)|1<<32, uint64(n))
			if total == len(p) || d.f.nonblock {
				return total, nil
			}
			continue
		}
		// no room
		if d.f.nonblock {
			if total > 0 {
				return total, nil
			}
			s.wasFull = true
			k.count("fault.eagain_write")
			return 0, unix.EAGAIN
		}
		w := s.wwait.add()
		g.BlockOn(w.ch, fmt.Sprintf("write fd %d", d.fd))
	}
}

func (k *Kernel) closeSock(s *Sock) {
	if s.closed {
		return
	}
	s.closed = true
	for _, it := range s.oob {
		for _, fd := range it.fds {
			k.closeReal(fd)
		}
	}
	s.oob = nil
	for _, r := range s.regs {
		delete(r.ep.regs, r.fd)
		r.onReady = false
		r.sock = nil
	}
	s.regs = nil
	s.rwait.wakeAll()
	s.wwait.wakeAll()
	if p := s.peer; p != nil && !p.closed {
		p.peerGone = true
		p.rwait.wakeAll()
		p.wwait.wakeAll()
		p.edge()
	}
}

// Sever makes the connection behave as if it broke: both ends see the peer gone.
func (k *Kernel) Sever(s *Sock, rst bool) {
	k.count("fault.sever")
	for _, e := range []*Sock{s, s.peer} {
		if e == nil || e.closed {
			continue
		}
		e.peerGone = true
		if rst {
			e.reset = true
		}
		e.rwait.wakeAll()
		e.wwait.wakeAll()
		e.edge()
	}
}

// ---------------------------------------------------------------------------
// descriptor operations (the API the package uses)

func Close(fd int) error {
	g := simrt.Yield(simrt.KSyscall, "close")
	_ = g
	k := K
	if k == nil {
		return unix.Close(fd)
	}
	if fd < FakeFdBase {
		if _, ok := k.realFds[fd]; !ok {
			// a real descriptor the ledger does not know: double close or foreign fd. Never
			// really close it (it could belong to the test binary itself).
			simrt.Count("ledger.double_close", 1)
			return unix.EBADF
		}
		delete(k.realFds, fd)
		return unix.Close(fd)
	}
	return k.closeFd(fd)
}

func (k *Kernel) closeFd(fd int) error {
	d := k.fds[fd]
	if d == nil {
		simrt.Count("ledger.double_close", 1)
		return unix.EBADF
	}
	delete(k.fds, fd)
	d.f.refs--
	if d.f.refs > 0 {
		return nil
	}
	switch {
	case d.f.sock != nil:
		k.closeSock(d.f.sock)
	case d.f.ep != nil:
		for _, r := range d.f.ep.regs {
			if r.sock != nil {
				for i, x := range r.sock.regs {
					if x == r {
						r.sock.regs = append(r.sock.regs[:i], r.sock.regs[i+1:]...)
						break
					}
				}
			}
		}
		d.f.ep.regs = nil
		d.f.ep.wq.wakeAll()
	case d.f.ln != nil:
		k.closeListener(d.f.ln)
	}
	return nil
}

func (k *Kernel) closeReal(fd int) {
	delete(k.realFds, fd)
	_ = unix.Close(fd)
}

// CloseFile replaces (*os.File).Close.
func CloseFile(f *os.File) error {
	if f == nil {
		return os.ErrInvalid
	}
	fd := int(f.Fd())
	if K != nil && fd >= FakeFdBase {
		simrt.Yield(simrt.KSyscall, "fclose")
		return K.closeFd(fd)
	}
	return f.Close()
}

// Dup duplicates a simulated descriptor for process p (conn.File()).
func (k *Kernel) Dup(fd int, p *simrt.Proc) (int, error) {
	d := k.fds[fd]
	if d == nil {
		return -1, unix.EBADF
	}
	return k.newFd(d.f, p), nil
}

// Shutdown shuts one or both directions of a simulated stream socket: blocked and later reads return 0,
// writes fail with EPIPE, the peer reads end-of-file after draining and gets EPIPE on write.
func Shutdown(fd int, how int) error {
	simrt.Yield(simrt.KSyscall, "shutdown")
	if K == nil || fd < FakeFdBase {
		return unix.Shutdown(fd, how)
	}
	d := K.fds[fd]
	if d == nil || d.f.sock == nil {
		return unix.EBADF
	}
	s := d.f.sock
	if how == unix.SHUT_RD || how == unix.SHUT_RDWR {
		s.peerGone = true // reads: drain what is buffered, then end-of-file
		s.rwait.wakeAll()
	}
	if how == unix.SHUT_WR || how == unix.SHUT_RDWR {
		s.shutWr = true
		s.wwait.wakeAll()
		if p := s.peer; p != nil && !p.closed {
			p.peerGone = true
			p.rwait.wakeAll()
			p.wwait.wakeAll()
			p.edge()
		}
	}
	s.edge()
	return nil
}

func SetNonblock(fd int, nb bool) error {
	simrt.Yield(simrt.KSyscall, "setnonblock")
	if K == nil || fd < FakeFdBase {
		return unix.SetNonblock(fd, nb)
	}
	d := K.fds[fd]
	if d == nil {
		return unix.EBADF
	}
	d.f.nonblock = nb
	return nil
}

func Read(fd int, p []byte) (int, error) {
	g := simrt.Yield(simrt.KSyscall, "read")
	if K == nil || fd < FakeFdBase {
		return unix.Read(fd, p)
	}
	d := K.fds[fd]
	if d == nil || d.f.sock == nil {
		return -1, unix.EBADF
	}
	if len(p) == 0 {
		return 0, nil
	}
	n, _, err := K.sockRead(g, d, p, false)
	if err != nil {
		return -1, err
	}
	return n, nil
}

func Write(fd int, p []byte) (int, error) {
	g := simrt.Yield(simrt.KSyscall, "write")
	if K == nil || fd < FakeFdBase {
		return unix.Write(fd, p)
	}
	d := K.fds[fd]
	if d == nil || d.f.sock == nil {
		return -1, unix.EBADF
	}
	if len(p) == 0 {
		return 0, nil
	}
	n, err := K.sockWrite(g, d, p, nil)
	if err != nil && n == 0 {
		return -1, err
	}
	return n, nil
}

func Sendmsg(fd int, p, oob []byte, to unix.Sockaddr, flags int) error {
	g := simrt.Yield(simrt.KSyscall, "sendmsg")
	if K == nil || fd < FakeFdBase {
		return unix.Sendmsg(fd, p, oob, to, flags)
	}
	k := K
	d := k.fds[fd]
	if d == nil || d.f.sock == nil {
		return unix.EBADF
	}
	var fds []int
	if len(oob) > 0 {
		if d.f.sock.Flavor != "unix" {
			return unix.EINVAL
		}
		msgs, err := unix.ParseSocketControlMessage(oob)
		if err != nil {
			return unix.EINVAL
		}
		for i := range msgs {
			r, err := unix.ParseUnixRights(&msgs[i])
			if err != nil {
				return unix.EINVAL
			}
			for _, rfd := range r {
				nfd, err := unix.Dup(rfd)
				if err != nil {
					return unix.EBADF
				}
				k.realFds[nfd] = &realFd{proc: nil, what: "scm-inflight"}
				fds = append(fds, nfd)
			}
		}
		if fds == nil {
			fds = []int{}
		}
	}
	data := p
	if len(data) == 0 && len(oob) > 0 {
		data = []byte{0} // x/sys/unix sends one dummy byte on stream sockets
	}
	if len(data) == 0 {
		return nil
	}
	_, err := k.sockWrite(g, d, data, fds)
	if err != nil {
		for _, x := range fds {
			k.closeReal(x)
		}
	}
	return err
}

func Recvmsg(fd int, p, oob []byte, flags int) (n, oobn int, recvflags int, from unix.Sockaddr, err error) {
	g := simrt.Yield(simrt.KSyscall, "recvmsg")
	if K == nil || fd < FakeFdBase {
		return unix.Recvmsg(fd, p, oob, flags)
	}
	k := K
	d := k.fds[fd]
	if d == nil || d.f.sock == nil {
		return 0, 0, 0, nil, unix.EBADF
	}
	buf := p
	dummy := false
	if len(buf) == 0 && len(oob) > 0 {
		buf = make([]byte, 1) // x/sys/unix receives one dummy byte
		dummy = true
	}
	rn, fds, rerr := k.sockRead(g, d, buf, true)
	if rerr != nil {
		return 0, 0, 0, nil, rerr
	}
	if !dummy {
		n = rn
	}
	if len(fds) > 0 {
		for _, x := range fds {
			if r := k.realFds[x]; r != nil {
				r.proc = d.proc
				r.what = "scm-received"
			}
		}
		b := unix.UnixRights(fds...)
		if len(b) > len(oob) {
			recvflags |= unix.MSG_CTRUNC
			for _, x := range fds {
				k.closeReal(x)
			}
		} else {
			oobn = copy(oob, b)
		}
	}
	return n, oobn, recvflags, nil, nil
}

func ptrOf(a interface{}) unsafe.Pointer {
	switch v := a.(type) {
	case unsafe.Pointer:
		return v
	case uintptr:
		return unsafe.Pointer(v) //nolint:govet
	}
	return nil
}

func intOf(a interface{}) uintptr {
	switch v := a.(type) {
	case uintptr:
		return v
	case int:
		return uintptr(v)
	case unsafe.Pointer:
		return uintptr(v)
	}
	panic(fmt.Sprintf("ssys: unsupported raw syscall argument %T", a))
}

// Syscall supports SYS_WRITE, SYS_WRITEV and SYS_READ on simulated descriptors.
func Syscall(trap uintptr, a1, a2, a3 interface{}) (r1, r2 uintptr, err unix.Errno) {
	return rawSyscall(trap, a1, a2, a3)
}

func RawSyscall(trap uintptr, a1, a2, a3 interface{}) (r1, r2 uintptr, err unix.Errno) {
	return rawSyscall(trap, a1, a2, a3)
}

func errnoOf(err error) unix.Errno {
	if err == nil {
		return 0
	}
	if e, ok := err.(unix.Errno); ok {
		return e
	}
	return unix.EIO
}

func rawSyscall(trap uintptr, a1, a2, a3 interface{}) (r1, r2 uintptr, err unix.Errno) {
	fd := int(intOf(a1))
	k := K
	if k == nil || fd < FakeFdBase {
		panic(fmt.Sprintf("ssys: raw syscall %d on a real descriptor %d is not supported", trap, fd))
	}
	switch trap {
	case unix.SYS_WRITE:
		g := simrt.Yield(simrt.KSyscall, "sys_write")
		d := k.fds[fd]
		if d == nil || d.f.sock == nil {
			return ^uintptr(0), 0, unix.EBADF
		}
		n := int(intOf(a3))
		if n == 0 {
			return 0, 0, 0
		}
		p := unsafe.Slice((*byte)(ptrOf(a2)), n)
		w, e := k.sockWrite(g, d, p, nil)
		if e != nil && w == 0 {
			return ^uintptr(0), 0, errnoOf(e)
		}
		return uintptr(w), 0, 0
	case unix.SYS_WRITEV:
		g := simrt.Yield(simrt.KSyscall, "sys_writev")
		d := k.fds[fd]
		if d == nil || d.f.sock == nil {
			return ^uintptr(0), 0, unix.EBADF
		}
		cnt := int(intOf(a3))
		iov := unsafe.Slice((*unix.Iovec)(ptrOf(a2)), cnt)
		var buf []byte
		for i := range iov {
			if iov[i].Len > 0 {
				buf = append(buf, unsafe.Slice(iov[i].Base, int(iov[i].Len))...)
			}
		}
		if len(buf) == 0 {
			return 0, 0, 0
		}
		w, e := k.sockWrite(g, d, buf, nil)
		if e != nil && w == 0 {
			return ^uintptr(0), 0, errnoOf(e)
		}
		return uintptr(w), 0, 0
	case unix.SYS_READ:
		g := simrt.Yield(simrt.KSyscall, "sys_read")
		d := k.fds[fd]
		if d == nil || d.f.sock == nil {
			return ^uintptr(0), 0, unix.EBADF
		}
		n := int(intOf(a3))
		if n == 0 {
			return 0, 0, 0
		}
		p := unsafe.Slice((*byte)(ptrOf(a2)), n)
		r, _, e := k.sockRead(g, d, p, false)
		if e != nil {
			return ^uintptr(0), 0, errnoOf(e)
		}
		return uintptr(r), 0, 0
	}
	panic(fmt.Sprintf("ssys: unsupported raw syscall %d", trap))
}

// ---------------------------------------------------------------------------
// epoll

func EpollCreate1(flag int) (int, error) {
	simrt.Yield(simrt.KSyscall, "epoll_create")
	if K == nil {
		return unix.EpollCreate1(flag)
	}
	return K.newFd(&file{ep: &Epoll{regs: map[int]*epreg{}}}, curProc()), nil
}

type rawEpollEvent struct {
	events uint32
	data   [8]byte
}

func RawSyscall6(trap uintptr, a1, a2, a3, a4, a5, a6 interface{}) (r1, r2 uintptr, err unix.Errno) {
	return Syscall6(trap, a1, a2, a3, a4, a5, a6)
}

func Syscall6(trap uintptr, a1, a2, a3, a4, a5, a6 interface{}) (r1, r2 uintptr, err unix.Errno) {
	k := K
	if k == nil {
		panic("ssys: Syscall6 outside simulation")
	}
	switch trap {
	case unix.SYS_EPOLL_CTL:
		simrt.Yield(simrt.KSyscall, "epoll_ctl")
		epfd, op, fd := int(intOf(a1)), int(intOf(a2)), int(intOf(a3))
		ed := k.fds[epfd]
		if ed == nil || ed.f.ep == nil {
			return ^uintptr(0), 0, unix.EBADF
		}
		ep := ed.f.ep
		td := k.fds[fd]
		switch op {
		case unix.EPOLL_CTL_ADD:
			if td == nil || td.f.sock == nil {
				return ^uintptr(0), 0, unix.EBADF
			}
			if ep.regs[fd] != nil {
				return ^uintptr(0), 0, unix.EEXIST
			}
			ev := (*rawEpollEvent)(ptrOf(a4))
			r := &epreg{ep: ep, fd: fd, sock: td.f.sock, events: ev.events, data: ev.data}
			ep.regs[fd] = r
			td.f.sock.regs = append(td.f.sock.regs, r)
			// current readiness is reported once
			r.onReady = true
			ep.ready = append(ep.ready, r)
			ep.wq.wakeAll()
			return 0, 0, 0
		case unix.EPOLL_CTL_DEL:
			r := ep.regs[fd]
			if r == nil {
				return ^uintptr(0), 0, unix.ENOENT
			}
			delete(ep.regs, fd)
			if r.sock != nil {
				for i, x := range r.sock.regs {
					if x == r {
						r.sock.regs = append(r.sock.regs[:i], r.sock.regs[i+1:]...)
						break
					}
				}
			}
			r.sock = nil
			r.onReady = false
			return 0, 0, 0
		case unix.EPOLL_CTL_MOD:
			r := ep.regs[fd]
			if r == nil {
				return ^uintptr(0), 0, unix.ENOENT
			}
			ev := (*rawEpollEvent)(ptrOf(a4))
			r.events, r.data = ev.events, ev.data
			if !r.onReady {
				r.onReady = true
				ep.ready = append(ep.ready, r)
			}
			ep.wq.wakeAll()
			return 0, 0, 0
		}
		return ^uintptr(0), 0, unix.EINVAL
	case unix.SYS_EPOLL_WAIT, unix.SYS_EPOLL_PWAIT:
		g := simrt.Yield(simrt.KSyscall, "epoll_wait")
		epfd := int(intOf(a1))
		max := int(intOf(a3))
		msec := int(int32(intOf(a4)))
		ed := k.fds[epfd]
		if ed == nil || ed.f.ep == nil {
			return ^uintptr(0), 0, unix.EBADF
		}
		ep := ed.f.ep
		evs := unsafe.Slice((*rawEpollEvent)(ptrOf(a2)), max)
		var deadline *simrt.Timer
		for {
			if k.fds[epfd] != ed {
				return ^uintptr(0), 0, unix.EBADF
			}
			n := 0
			var keep []*epreg
			for _, r := range ep.ready {
				if r.sock == nil || !r.onReady {
					continue
				}
				if n >= max {
					keep = append(keep, r)
					continue
				}
				m := r.sock.mask() & (r.events | unix.EPOLLHUP | unix.EPOLLERR)
				r.onReady = false
				if m == 0 {
					continue
				}
				evs[n] = rawEpollEvent{events: m, data: r.data}
				n++
			}
			ep.ready = keep
			if n > 0 {
				if deadline != nil {
					deadline.Stop()
				}
				return uintptr(n), 0, 0
			}
			if msec == 0 {
				return 0, 0, 0
			}
			if deadline == nil && msec > 0 {
				deadline = simrt.NewTimer(time.Duration(msec) * time.Millisecond)
			}
			w := ep.wq.add()
			var tch <-chan time.Time
			if deadline != nil {
				tch = deadline.C
			}
			timedOut := false
			g.MarkDaemonWait(true)
			select {
			case <-w.ch:
			case <-tch:
				timedOut = true
			case <-simrt.Teardown():
				simrt.Exit()
			}
			g.MarkDaemonWait(false)
			g.AfterBlock()
			if timedOut {
				return 0, 0, 0
			}
		}
	}
	panic(fmt.Sprintf("ssys: unsupported raw syscall6 %d", trap))
}

// ---------------------------------------------------------------------------
// listeners / connect (used by simnet)

func lnKey(network, addr string) string { return network + "|" + addr }

func (k *Kernel) Listen(p *simrt.Proc, network, addr string) (*ListenerObj, int, error) {
	simrt.Yield(simrt.KSyscall, "listen")
	if network == "unix" {
		// bind through a marker file at the real path: EADDRINUSE / unlink / re-listen behave as on Linux
		if _, err := os.Lstat(addr); err == nil {
			return nil, -1, unix.EADDRINUSE
		}
	} else {
		if l := k.listeners[lnKey(network, addr)]; l != nil && !l.closed {
			return nil, -1, unix.EADDRINUSE
		}
	}
	ln := &ListenerObj{ID: k.nextID, Network: network, Addr: addr, Owner: p}
	k.nextID++
	if network == "unix" {
		if err := os.WriteFile(addr, []byte(fmt.Sprintf("%d", ln.ID)), 0o600); err != nil {
			return nil, -1, err
		}
		k.listeners[lnKey(network, fmt.Sprintf("%s#%d", addr, ln.ID))] = ln
	} else {
		k.listeners[lnKey(network, addr)] = ln
	}
	fd := k.newFd(&file{ln: ln}, p)
	return ln, fd, nil
}

func (k *Kernel) closeListener(ln *ListenerObj) {
	if ln.closed {
		return
	}
	ln.closed = true
	for _, s := range ln.backlog {
		k.closeSock(s)
	}
	ln.backlog = nil
	ln.wq.wakeAll()
}

func (k *Kernel) findListener(network, addr string) *ListenerObj {
	if network == "unix" {
		b, err := os.ReadFile(addr)
		if err != nil {
			return nil
		}
		return k.listeners[lnKey(network, fmt.Sprintf("%s#%s", addr, string(b)))]
	}
	return k.listeners[lnKey(network, addr)]
}

// OwnerOfPeer returns the process that holds a descriptor of the other end of s.
func (k *Kernel) OwnerOfPeer(s *Sock) *simrt.Proc {
	if s == nil || s.peer == nil {
		return nil
	}
	var best *fdesc
	for _, d := range k.fds {
		if d.f.sock == s.peer && (best == nil || d.fd < best.fd) {
			best = d
		}
	}
	if best == nil {
		return nil
	}
	return best.proc
}

// Connect creates a connection to the listener bound at addr.
func (k *Kernel) Connect(p *simrt.Proc, network, addr string) (int, *Sock, error) {
	simrt.Yield(simrt.KSyscall, "connect")
	k.Stats["connect"]++
	if network == "unix" {
		if _, err := os.Lstat(addr); err != nil {
			return -1, nil, unix.ENOENT
		}
	}
	ln := k.findListener(network, addr)
	if ln == nil || ln.closed || ln.Owner.Dead {
		return -1, nil, unix.ECONNREFUSED
	}
	local := ""
	if network != "unix" {
		local = fmt.Sprintf("127.0.0.1:%d", 40000+k.nextID)
	}
	c, s := k.newSockPair(network, local, addr)
	ln.backlog = append(ln.backlog, s)
	ln.wq.wakeAll()
	return k.newFd(&file{sock: c}, p), c, nil
}

// Accept blocks until a connection is queued or the listener is closed.
func (k *Kernel) Accept(lfd int) (int, *Sock, error) {
	g := simrt.Yield(simrt.KSyscall, "accept")
	for {
		d := k.fds[lfd]
		if d == nil || d.f.ln == nil || d.f.ln.closed {
			return -1, nil, unix.EINVAL // "use of closed network connection"
		}
		ln := d.f.ln
		if len(ln.backlog) > 0 {
			s := ln.backlog[0]
			ln.backlog = ln.backlog[1:]
			return k.newFd(&file{sock: s}, d.proc), s, nil
		}
		w := ln.wq.add()
		g.BlockOn(w.ch, "accept")
	}
}

// ---------------------------------------------------------------------------
// memory and real descriptors

func (k *Kernel) keyOf(fd int) uint64 {
	var st unix.Stat_t
	if err := unix.Fstat(fd, &st); err != nil {
		return 0
	}
	key := [2]uint64{uint64(st.Dev), st.Ino}
	id, ok := k.keyIDs[key]
	if !ok {
		id = uint64(len(k.keyIDs) + 1)
		k.keyIDs[key] = id
	}
	return id
}

func Mmap(fd int, offset int64, length int, prot int, flags int) ([]byte, error) {
	simrt.Yield(simrt.KSyscall, "mmap")
	if K != nil && K.MmapFault != nil && K.MmapFault(curProc()) {
		// injected failure of the system call (address space / memory exhausted)
		simrt.Count("fault.mmap_enomem", 1)
		return nil, unix.ENOMEM
	}
	b, err := unix.Mmap(fd, offset, length, prot, flags)
	if err != nil || K == nil {
		return b, err
	}
	k := K
	k.Mappings = append(k.Mappings, &Mapping{Addr: uintptr(unsafe.Pointer(&b[0])), Len: len(b), Mem: b, Proc: curProc(), Key: k.keyOf(fd), Off: offset, Live: true})
	return b, nil
}

func Munmap(b []byte) error {
	simrt.Yield(simrt.KSyscall, "munmap")
	if K == nil {
		return unix.Munmap(b)
	}
	if len(b) == 0 {
		return unix.EINVAL
	}
	a := uintptr(unsafe.Pointer(&b[0]))
	for _, m := range K.Mappings {
		if m.Addr == a && m.Live {
			m.Live = false
			// quarantine: any later access faults (recoverable) instead of corrupting a reused address
			_ = unix.Mprotect(m.Mem, unix.PROT_NONE)
			return nil
		}
	}
	simrt.Count("ledger.munmap_unknown", 1)
	return unix.EINVAL
}

func MemfdCreate(name string, flags int) (int, error) {
	simrt.Yield(simrt.KSyscall, "memfd_create")
	fd, err := unix.MemfdCreate(name, flags)
	if err == nil && K != nil {
		K.realFds[fd] = &realFd{proc: curProc(), what: "memfd:" + name}
	}
	return fd, err
}

func Ftruncate(fd int, length int64) error {
	simrt.Yield(simrt.KSyscall, "ftruncate")
	return unix.Ftruncate(fd, length)
}

func Fstat(fd int, st *unix.Stat_t) error {
	simrt.Yield(simrt.KSyscall, "fstat")
	if K != nil && fd >= FakeFdBase {
		return unix.EBADF
	}
	return unix.Fstat(fd, st)
}

func Unlink(path string) error {
	simrt.Yield(simrt.KSyscall, "unlink")
	return unix.Unlink(path)
}

// ---------------------------------------------------------------------------
// process control and census

// KillProc kills process p: its goroutines never run again, its descriptors are
// closed as the kernel would; shared memory is left exactly as it was.
func (k *Kernel) KillProc(p *simrt.Proc) {
	k.count("fault.kill")
	k.sim.Kill(p)
	fds := make([]int, 0)
	for fd, d := range k.fds {
		if d.proc == p {
			fds = append(fds, fd)
		}
	}
	sort.Ints(fds)
	for _, fd := range fds {
		_ = k.closeFd(fd)
	}
	rf := make([]int, 0)
	for fd, r := range k.realFds {
		if r.proc == p {
			rf = append(rf, fd)
		}
	}
	sort.Ints(rf)
	for _, fd := range rf {
		k.closeReal(fd)
	}
	for _, m := range k.Mappings {
		if m.Proc == p && m.Live {
			m.Live = false // the address space is gone; memory content stays (other mapping)
		}
	}
}

// Census describes what a process still holds.
type Census struct {
	SimFds   []int
	RealFds  []string
	Mappings int
}

func (k *Kernel) CensusOf(p *simrt.Proc) Census {
	var c Census
	for fd, d := range k.fds {
		if d.proc == p {
			c.SimFds = append(c.SimFds, fd)
		}
	}
	sort.Ints(c.SimFds)
	for fd, r := range k.realFds {
		if r.proc == p {
			c.RealFds = append(c.RealFds, fmt.Sprintf("%d:%s", fd, r.what))
		}
	}
	sort.Strings(c.RealFds)
	for _, m := range k.Mappings {
		if m.Proc == p && m.Live {
			c.Mappings++
		}
	}
	return c
}

// FdKind describes a simulated descriptor (for census messages).
func (k *Kernel) FdKind(fd int) string {
	d := k.fds[fd]
	if d == nil {
		return "closed"
	}
	switch {
	case d.f.sock != nil:
		return fmt.Sprintf("socket#%d", d.f.sock.ID)
	case d.f.ep != nil:
		return "epoll"
	case d.f.ln != nil:
		return "listener:" + d.f.ln.Addr
	}
	return "?"
}
