package ssys

import "golang.org/x/sys/unix"

// Pass-through names of golang.org/x/sys/unix that the package (or a plausible
// change to it) may use. Anything else fails the build of the check (exit 2).

type (
	Errno                = unix.Errno
	Stat_t               = unix.Stat_t
	Iovec                = unix.Iovec
	Sockaddr             = unix.Sockaddr
	SocketControlMessage = unix.SocketControlMessage
	Statfs_t             = unix.Statfs_t
	Cmsghdr              = unix.Cmsghdr
)

const (
	EAGAIN      = unix.EAGAIN
	EWOULDBLOCK = unix.EWOULDBLOCK
	EPIPE       = unix.EPIPE
	EINTR       = unix.EINTR
	EBADF       = unix.EBADF
	EINVAL      = unix.EINVAL
	ENOENT      = unix.ENOENT
	EEXIST      = unix.EEXIST
	ECONNRESET  = unix.ECONNRESET
	ECONNREFUSED = unix.ECONNREFUSED
	ENOMEM      = unix.ENOMEM
	ENOSPC      = unix.ENOSPC
	EMFILE      = unix.EMFILE

	EPOLLIN       = unix.EPOLLIN
	EPOLLOUT      = unix.EPOLLOUT
	EPOLLRDHUP    = unix.EPOLLRDHUP
	EPOLLHUP      = unix.EPOLLHUP
	EPOLLERR      = unix.EPOLLERR
	EPOLLET       = unix.EPOLLET
	EPOLLPRI      = unix.EPOLLPRI
	EPOLLONESHOT  = unix.EPOLLONESHOT
	EPOLL_CTL_ADD = unix.EPOLL_CTL_ADD
	EPOLL_CTL_DEL = unix.EPOLL_CTL_DEL
	EPOLL_CTL_MOD = unix.EPOLL_CTL_MOD
	EPOLL_CLOEXEC = unix.EPOLL_CLOEXEC

	PROT_READ  = unix.PROT_READ
	PROT_WRITE = unix.PROT_WRITE
	PROT_NONE  = unix.PROT_NONE
	MAP_SHARED = unix.MAP_SHARED
	MAP_PRIVATE = unix.MAP_PRIVATE
	MAP_POPULATE = unix.MAP_POPULATE

	SYS_WRITE       = unix.SYS_WRITE
	SYS_WRITEV      = unix.SYS_WRITEV
	SYS_READ        = unix.SYS_READ
	SYS_EPOLL_CTL   = unix.SYS_EPOLL_CTL
	SYS_EPOLL_WAIT  = unix.SYS_EPOLL_WAIT
	SYS_EPOLL_PWAIT = unix.SYS_EPOLL_PWAIT

	SHUT_RD      = unix.SHUT_RD
	SHUT_WR      = unix.SHUT_WR
	SHUT_RDWR    = unix.SHUT_RDWR
	MSG_CTRUNC   = unix.MSG_CTRUNC
	MSG_DONTWAIT = unix.MSG_DONTWAIT
	MFD_CLOEXEC  = unix.MFD_CLOEXEC
	O_NONBLOCK   = unix.O_NONBLOCK
	SOL_SOCKET   = unix.SOL_SOCKET
	SCM_RIGHTS   = unix.SCM_RIGHTS
)

func UnixRights(fds ...int) []byte { return unix.UnixRights(fds...) }
func ParseUnixRights(m *SocketControlMessage) ([]int, error) { return unix.ParseUnixRights(m) }
func ParseSocketControlMessage(b []byte) ([]SocketControlMessage, error) {
	return unix.ParseSocketControlMessage(b)
}
func CmsgSpace(n int) int { return unix.CmsgSpace(n) }
func CmsgLen(n int) int   { return unix.CmsgLen(n) }
func Getpagesize() int    { return unix.Getpagesize() }
func Statfs(path string, st *Statfs_t) error { return unix.Statfs(path, st) }
