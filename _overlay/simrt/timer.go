package simrt

import (
	"container/heap"
	"runtime"
	"time"
)

// Simulated timers. Real (bubble) timers that fire at the same virtual instant
// wake their goroutines in an order chosen by the Go runtime (it depends on the
// P-local timer heaps, hence on GOMAXPROCS): a goroutine blocked in a select on
// two such timers would take either branch. All timers of the code under test
// and of the harness are therefore events of the simulator: the root goroutine
// fires the due ones one at a time in (deadline, creation sequence) order.

type timerEv struct {
	at   time.Time
	seq  uint64
	fire func(now time.Time) (again bool, next time.Time)
	idx  int
	live bool
}

type timerHeap []*timerEv

func (h timerHeap) Len() int { return len(h) }
func (h timerHeap) Less(i, j int) bool {
	if !h[i].at.Equal(h[j].at) {
		return h[i].at.Before(h[j].at)
	}
	return h[i].seq < h[j].seq
}
func (h timerHeap) Swap(i, j int)       { h[i], h[j] = h[j], h[i]; h[i].idx = i; h[j].idx = j }
func (h *timerHeap) Push(x interface{}) { e := x.(*timerEv); e.idx = len(*h); *h = append(*h, e) }
func (h *timerHeap) Pop() interface{} {
	old := *h
	n := len(old)
	e := old[n-1]
	*h = old[:n-1]
	e.idx = -1
	return e
}

func (s *Sim) addTimer(d time.Duration, fire func(now time.Time) (bool, time.Time)) *timerEv {
	s.mu.Lock()
	defer s.mu.Unlock()
	s.timerSeq++
	e := &timerEv{at: time.Now().Add(d), seq: s.timerSeq, fire: fire, live: true}
	heap.Push(&s.timers, e)
	return e
}

func (s *Sim) delTimer(e *timerEv) bool {
	s.mu.Lock()
	defer s.mu.Unlock()
	if e == nil || !e.live {
		return false
	}
	e.live = false
	if e.idx >= 0 {
		heap.Remove(&s.timers, e.idx)
	}
	return true
}

// fireDue fires every timer whose deadline has been reached; returns how many fired. Root only.
func (s *Sim) fireDue() int {
	n := 0
	for {
		s.mu.Lock()
		if len(s.timers) == 0 || s.timers[0].at.After(time.Now()) {
			s.mu.Unlock()
			return n
		}
		e := heap.Pop(&s.timers).(*timerEv)
		s.mu.Unlock()
		if !e.live {
			continue
		}
		again, next := e.fire(time.Now())
		n++
		if again && e.live {
			s.mu.Lock()
			e.at = next
			s.timerSeq++
			e.seq = s.timerSeq
			heap.Push(&s.timers, e)
			s.mu.Unlock()
		} else {
			e.live = false
		}
	}
}

func (s *Sim) nextTimer() (time.Duration, bool) {
	s.mu.Lock()
	defer s.mu.Unlock()
	if len(s.timers) == 0 {
		return 0, false
	}
	d := time.Until(s.timers[0].at)
	if d < 0 {
		d = 0
	}
	return d, true
}

// Timer mirrors time.Timer.
type Timer struct {
	C    <-chan time.Time
	c    chan time.Time
	ev   *timerEv
	s    *Sim
	real *time.Timer
	f    func()
	g    *G
}

func NewTimer(d time.Duration) *Timer {
	s := S
	if s == nil {
		rt := time.NewTimer(d)
		return &Timer{C: rt.C, real: rt}
	}
	t := &Timer{c: make(chan time.Time, 1), s: s}
	t.C = t.c
	t.arm(d)
	return t
}

func (t *Timer) arm(d time.Duration) {
	t.ev = t.s.addTimer(d, func(now time.Time) (bool, time.Time) {
		if t.f != nil {
			t.s.startTimerG(t.g, t.f)
			return false, now
		}
		select {
		case t.c <- now:
		default:
		}
		return false, now
	})
}

// Stop prevents the timer from firing. The module under test declares go 1.20, so in production its timers
// have the pre-1.23 semantics (asynctimerchan=1): the channel is buffered and a value that was already sent
// stays there after Stop or Reset until somebody receives it. The simulated timers reproduce exactly that
// (the code's own "if !t.Stop() { drain }" idiom is what has to cope with it).
func (t *Timer) Stop() bool {
	if t.real != nil {
		return t.real.Stop()
	}
	return t.s.delTimer(t.ev)
}

func (t *Timer) Reset(d time.Duration) bool {
	if t.real != nil {
		return t.real.Reset(d)
	}
	active := t.Stop()
	if t.s != S || S == nil {
		return active // a timer from an earlier run: dead
	}
	if t.f != nil {
		t.g = t.s.newTimerG()
	}
	t.arm(d)
	return active
}

// AfterFunc mirrors time.AfterFunc: f runs as a new simulated goroutine of the caller's process.
func AfterFunc(d time.Duration, f func()) *Timer {
	s := S
	if s == nil {
		return &Timer{real: time.AfterFunc(d, f)}
	}
	Yield(KGo, "afterfunc")
	t := &Timer{s: s, f: f}
	t.g = s.newTimerG()
	t.arm(d)
	return t
}

func (s *Sim) newTimerG() *G {
	proc := s.curProc
	if s.cur != nil {
		proc = s.cur.proc
	}
	s.mu.Lock()
	g := s.newG("afterfunc:"+callerName(3), proc)
	g.what = "timer"
	s.mu.Unlock()
	return g
}

func (s *Sim) startTimerG(g *G, f func()) {
	if s.tornDown {
		return
	}
	go s.run(g, f)
}

// Ticker mirrors time.Ticker.
type Ticker struct {
	C    <-chan time.Time
	c    chan time.Time
	ev   *timerEv
	s    *Sim
	d    time.Duration
	real *time.Ticker
}

func NewTicker(d time.Duration) *Ticker {
	if d <= 0 {
		panic("non-positive interval for NewTicker")
	}
	s := S
	if s == nil {
		rt := time.NewTicker(d)
		return &Ticker{C: rt.C, real: rt}
	}
	t := &Ticker{c: make(chan time.Time, 1), s: s, d: d}
	t.C = t.c
	t.arm()
	return t
}

func (t *Ticker) arm() {
	t.ev = t.s.addTimer(t.d, func(now time.Time) (bool, time.Time) {
		select {
		case t.c <- now:
		default:
		}
		return true, now.Add(t.d)
	})
}

func (t *Ticker) Stop() {
	if t.real != nil {
		t.real.Stop()
		return
	}
	t.s.delTimer(t.ev)
}

func (t *Ticker) Reset(d time.Duration) {
	if t.real != nil {
		t.real.Reset(d)
		return
	}
	t.s.delTimer(t.ev)
	t.d = d
	if t.s == S {
		t.arm()
	}
}

func After(d time.Duration) <-chan time.Time { return NewTimer(d).C }

func Tick(d time.Duration) <-chan time.Time {
	if d <= 0 {
		return nil
	}
	return NewTicker(d).C
}

// Sleep is time.Sleep on the virtual clock.
func Sleep(d time.Duration) {
	if S == nil {
		time.Sleep(d)
		return
	}
	g := Yield(KSleep, "sleep")
	if S.rootMode {
		return
	}
	t := NewTimer(d)
	g.what = "sleep"
	select {
	case <-t.C:
	case <-S.teardown:
		runtime.Goexit()
	}
	g.what = ""
	g.AfterBlock()
}
