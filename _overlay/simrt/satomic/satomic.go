// Package satomic replaces sync/atomic in the instrumented build: a decision
// point before every atomic operation, then the real operation. It also feeds
// the generic ABA detector (a CAS that succeeds although the word was written
// since the goroutine last loaded the expected value from it).
package satomic

import (
	"sync/atomic"
	"unsafe"

	"github.com/cloudwego/shmipc-go/simrt"
)

func LoadInt32(p *int32) int32 {
	g := simrt.Yield(simrt.KAtomicLoad, "load")
	v := atomic.LoadInt32(p)
	simrt.NoteLoad(g, unsafe.Pointer(p), uint64(uint32(v)))
	return v
}
func LoadUint32(p *uint32) uint32 {
	g := simrt.Yield(simrt.KAtomicLoad, "load")
	v := atomic.LoadUint32(p)
	simrt.NoteLoad(g, unsafe.Pointer(p), uint64(v))
	return v
}
func LoadInt64(p *int64) int64 {
	g := simrt.Yield(simrt.KAtomicLoad, "load")
	v := atomic.LoadInt64(p)
	simrt.NoteLoad(g, unsafe.Pointer(p), uint64(v))
	return v
}
func LoadUint64(p *uint64) uint64 {
	g := simrt.Yield(simrt.KAtomicLoad, "load")
	v := atomic.LoadUint64(p)
	simrt.NoteLoad(g, unsafe.Pointer(p), v)
	return v
}
func LoadPointer(p *unsafe.Pointer) unsafe.Pointer {
	simrt.Yield(simrt.KAtomicLoad, "load")
	return atomic.LoadPointer(p)
}

func StoreInt32(p *int32, v int32) {
	simrt.Yield(simrt.KAtomicStore, "store")
	atomic.StoreInt32(p, v)
	simrt.NoteWrite(unsafe.Pointer(p))
}
func StoreUint32(p *uint32, v uint32) {
	simrt.Yield(simrt.KAtomicStore, "store")
	atomic.StoreUint32(p, v)
	simrt.NoteWrite(unsafe.Pointer(p))
}
func StoreInt64(p *int64, v int64) {
	simrt.Yield(simrt.KAtomicStore, "store")
	atomic.StoreInt64(p, v)
	simrt.NoteWrite(unsafe.Pointer(p))
}
func StoreUint64(p *uint64, v uint64) {
	simrt.Yield(simrt.KAtomicStore, "store")
	atomic.StoreUint64(p, v)
	simrt.NoteWrite(unsafe.Pointer(p))
}
func StorePointer(p *unsafe.Pointer, v unsafe.Pointer) {
	simrt.Yield(simrt.KAtomicStore, "store")
	atomic.StorePointer(p, v)
}

func AddInt32(p *int32, d int32) int32 {
	simrt.Yield(simrt.KAtomicAdd, "add")
	v := atomic.AddInt32(p, d)
	simrt.NoteWrite(unsafe.Pointer(p))
	return v
}
func AddUint32(p *uint32, d uint32) uint32 {
	simrt.Yield(simrt.KAtomicAdd, "add")
	v := atomic.AddUint32(p, d)
	simrt.NoteWrite(unsafe.Pointer(p))
	return v
}
func AddInt64(p *int64, d int64) int64 {
	simrt.Yield(simrt.KAtomicAdd, "add")
	v := atomic.AddInt64(p, d)
	simrt.NoteWrite(unsafe.Pointer(p))
	return v
}
func AddUint64(p *uint64, d uint64) uint64 {
	simrt.Yield(simrt.KAtomicAdd, "add")
	v := atomic.AddUint64(p, d)
	simrt.NoteWrite(unsafe.Pointer(p))
	return v
}

func SwapInt32(p *int32, v int32) int32 {
	simrt.Yield(simrt.KAtomicStore, "swap")
	o := atomic.SwapInt32(p, v)
	simrt.NoteWrite(unsafe.Pointer(p))
	return o
}
func SwapUint32(p *uint32, v uint32) uint32 {
	simrt.Yield(simrt.KAtomicStore, "swap")
	o := atomic.SwapUint32(p, v)
	simrt.NoteWrite(unsafe.Pointer(p))
	return o
}
func SwapInt64(p *int64, v int64) int64 {
	simrt.Yield(simrt.KAtomicStore, "swap")
	o := atomic.SwapInt64(p, v)
	simrt.NoteWrite(unsafe.Pointer(p))
	return o
}
func SwapUint64(p *uint64, v uint64) uint64 {
	simrt.Yield(simrt.KAtomicStore, "swap")
	o := atomic.SwapUint64(p, v)
	simrt.NoteWrite(unsafe.Pointer(p))
	return o
}

func CompareAndSwapInt32(p *int32, o, n int32) bool {
	g := simrt.Yield(simrt.KCAS, "cas")
	ok := atomic.CompareAndSwapInt32(p, o, n)
	simrt.NoteCAS(g, unsafe.Pointer(p), uint64(uint32(o)), ok, o != n)
	return ok
}
func CompareAndSwapUint32(p *uint32, o, n uint32) bool {
	g := simrt.Yield(simrt.KCAS, "cas")
	ok := atomic.CompareAndSwapUint32(p, o, n)
	simrt.NoteCAS(g, unsafe.Pointer(p), uint64(o), ok, o != n)
	return ok
}
func CompareAndSwapInt64(p *int64, o, n int64) bool {
	g := simrt.Yield(simrt.KCAS, "cas")
	ok := atomic.CompareAndSwapInt64(p, o, n)
	simrt.NoteCAS(g, unsafe.Pointer(p), uint64(o), ok, o != n)
	return ok
}
func CompareAndSwapUint64(p *uint64, o, n uint64) bool {
	g := simrt.Yield(simrt.KCAS, "cas")
	ok := atomic.CompareAndSwapUint64(p, o, n)
	simrt.NoteCAS(g, unsafe.Pointer(p), o, ok, o != n)
	return ok
}
func CompareAndSwapPointer(p *unsafe.Pointer, o, n unsafe.Pointer) bool {
	simrt.Yield(simrt.KCAS, "cas")
	return atomic.CompareAndSwapPointer(p, o, n)
}

// Value mirrors atomic.Value.
type Value struct{ v atomic.Value }

func (v *Value) Load() interface{} {
	simrt.Yield(simrt.KAtomicLoad, "vload")
	return v.v.Load()
}
func (v *Value) Store(x interface{}) {
	simrt.Yield(simrt.KAtomicStore, "vstore")
	v.v.Store(x)
}
func (v *Value) Swap(x interface{}) interface{} {
	simrt.Yield(simrt.KAtomicStore, "vswap")
	return v.v.Swap(x)
}
func (v *Value) CompareAndSwap(o, n interface{}) bool {
	simrt.Yield(simrt.KCAS, "vcas")
	return v.v.CompareAndSwap(o, n)
}

// typed atomics (not used by the package today; provided so that a change that starts using them still builds)
type Int32 struct{ v int32 }

func (x *Int32) Load() int32                      { return LoadInt32(&x.v) }
func (x *Int32) Store(v int32)                    { StoreInt32(&x.v, v) }
func (x *Int32) Add(d int32) int32                { return AddInt32(&x.v, d) }
func (x *Int32) Swap(v int32) int32               { return SwapInt32(&x.v, v) }
func (x *Int32) CompareAndSwap(o, n int32) bool   { return CompareAndSwapInt32(&x.v, o, n) }

type Uint32 struct{ v uint32 }

func (x *Uint32) Load() uint32                     { return LoadUint32(&x.v) }
func (x *Uint32) Store(v uint32)                   { StoreUint32(&x.v, v) }
func (x *Uint32) Add(d uint32) uint32              { return AddUint32(&x.v, d) }
func (x *Uint32) Swap(v uint32) uint32             { return SwapUint32(&x.v, v) }
func (x *Uint32) CompareAndSwap(o, n uint32) bool  { return CompareAndSwapUint32(&x.v, o, n) }

type Int64 struct{ v int64 }

func (x *Int64) Load() int64                      { return LoadInt64(&x.v) }
func (x *Int64) Store(v int64)                    { StoreInt64(&x.v, v) }
func (x *Int64) Add(d int64) int64                { return AddInt64(&x.v, d) }
func (x *Int64) Swap(v int64) int64               { return SwapInt64(&x.v, v) }
func (x *Int64) CompareAndSwap(o, n int64) bool   { return CompareAndSwapInt64(&x.v, o, n) }

type Uint64 struct{ v uint64 }

func (x *Uint64) Load() uint64                     { return LoadUint64(&x.v) }
func (x *Uint64) Store(v uint64)                   { StoreUint64(&x.v, v) }
func (x *Uint64) Add(d uint64) uint64              { return AddUint64(&x.v, d) }
func (x *Uint64) Swap(v uint64) uint64             { return SwapUint64(&x.v, v) }
func (x *Uint64) CompareAndSwap(o, n uint64) bool  { return CompareAndSwapUint64(&x.v, o, n) }

type Bool struct{ v uint32 }

func (x *Bool) Load() bool { return LoadUint32(&x.v) != 0 }
func (x *Bool) Store(v bool) {
	if v {
		StoreUint32(&x.v, 1)
	} else {
		StoreUint32(&x.v, 0)
	}
}
