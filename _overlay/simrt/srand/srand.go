// Package srand replaces math/rand in the instrumented build with a stream
// derived from the run's seed (values never influence scheduling decisions'
// tape positions: they do not go through Choose).
package srand

import "github.com/cloudwego/shmipc-go/simrt"

var state uint64
var epoch uint64

func next() uint64 {
	if e := simrt.RunEpoch(); e != epoch {
		epoch = e
		state = 0x1234567 + simrt.RunSeed()
	}
	state += 0x9e3779b97f4a7c15
	z := state
	z = (z ^ (z >> 30)) * 0xbf58476d1ce4e5b9
	z = (z ^ (z >> 27)) * 0x94d049bb133111eb
	return z ^ (z >> 31)
}

func Uint64() uint64   { return next() }
func Uint32() uint32   { return uint32(next()) }
func Int63() int64     { return int64(next() >> 1) }
func Int31() int32     { return int32(next() >> 33) }
func Int() int         { return int(next() >> 1) }
func Float64() float64 { return float64(next()>>11) / (1 << 53) }
func Intn(n int) int {
	if n <= 0 {
		panic("invalid argument to Intn")
	}
	return int(next() % uint64(n))
}
func Int63n(n int64) int64 { return int64(next() % uint64(n)) }
func Int31n(n int32) int32 { return int32(next() % uint64(n)) }
func Seed(int64)           {}
