package simrt

import (
	"fmt"
	"unsafe"
)

// Generic ABA detector. Every atomic word has a version that is bumped by each
// successful write. A goroutine remembers, per word, the version at which it
// last loaded a value. A CAS(old→new) that succeeds while the version moved on
// since the goroutine loaded `old` is an ABA event: the word was changed and
// changed back behind the goroutine's back. Site-agnostic; addresses are
// normalised so that two mappings of the same shared memory agree.

func (s *Sim) norm(p unsafe.Pointer) uintptr {
	a := uintptr(p)
	if s.NormAddr != nil {
		return s.NormAddr(a)
	}
	return a
}

func NoteLoad(g *G, p unsafe.Pointer, v uint64) {
	s := S
	if s == nil || g == nil {
		return
	}
	a := s.norm(p)
	if g.seen == nil {
		g.seen = map[uintptr]seenRec{}
	}
	g.seen[a] = seenRec{ver: s.vers[a], val: v}
}

func NoteWrite(p unsafe.Pointer) {
	s := S
	if s == nil {
		return
	}
	s.vers[s.norm(p)]++
}

func NoteCAS(g *G, p unsafe.Pointer, old uint64, ok bool, changes bool) {
	s := S
	if s == nil || g == nil {
		return
	}
	a := s.norm(p)
	if ok {
		if rec, seen := g.seen[a]; seen && rec.val == old && rec.ver != s.vers[a] {
			s.ABAs = append(s.ABAs, ABAEvent{Addr: a, G: g.id, Step: s.steps})
			s.Counters["aba.cas"]++
			if s.cfg.Trace {
				s.trace = append(s.trace, fmt.Sprintf("%6d %10s   ABA event: CAS on %#x by g%d succeeded although the word was rewritten since it loaded the expected value", s.steps, s.Now(), a, g.id))
			}
			name, ok := s.abaWatch[a]
			if !ok && s.OnABA != nil {
				name = s.OnABA(a)
				ok = name != ""
			}
			if ok {
				// every later verdict of this run (including panics on library goroutines) carries the tag
				SetGlobalTag("aba_on", name)
				s.Counters["aba.tagged"]++
			}
		}
		if changes {
			s.vers[a]++
		}
	}
}

// Norm returns the normalised address of p in the current run.
func Norm(p unsafe.Pointer) uintptr {
	if S == nil {
		return uintptr(p)
	}
	return S.norm(p)
}

// WatchABA names a word (e.g. the head of a free list): an ABA event on it tags the rest of the run with aba_on=name.
func WatchABA(p unsafe.Pointer, name string) {
	s := S
	if s == nil {
		return
	}
	if s.abaWatch == nil {
		s.abaWatch = map[uintptr]string{}
	}
	s.abaWatch[s.norm(p)] = name
}
